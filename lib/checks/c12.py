"""C12 - flush actions make all prior input decodable; mid-stream option changes are safe."""
import build

SRC = ["hx_flush.c", "vh.c"]
RULE = ("case = action script over one encoder (stream, easy, threaded, raw, Block, .lzma): 1-12 segments of 0 / 1..nice_len+1 / "
        "log-uniform / multi-chunk bytes, each ended by RUN, SYNC_FLUSH, FULL_FLUSH or FULL_BARRIER, a quarter followed by "
        "lzma_filters_update (legal chain change between Blocks, legal lc/lp/pb change after sync flush, different filter "
        "IDs, invalid lc+lp), output windows random or 1-3 bytes, then FINISH. Monitors: at the instant a SYNC/FULL flush "
        "returns STREAM_END a fresh decoder over the output so far (no LZMA_FINISH) must yield exactly the input so far; "
        "chains that cannot sync-flush must answer LZMA_OPTIONS_ERROR; the final stream must decode to the whole input; "
        "the Index must show a Block boundary at every full-flush/barrier offset, no empty Block, and (single-threaded) no "
        "other boundary. distinct = hash(script, configuration); non-trivial = >= 1 flush with pending input")


def prepare(tier):
    return build.build_harness("asan", "hx_flush", SRC)


def run(ctx):
    exe = prepare(ctx.tier)
    ctx.rule = RULE
    ctx.assumptions = [
        "prefix decodability is judged by the matching liblzma decoder (the independent decoder is applied to encoder "
        "output by C02)",
        "Block boundaries are read through liblzma's file-info decoder (C13 checks that decoder separately)",
        "gcc ASan+UBSan build with assertions",
    ]
    ctx.run_shards(exe, [], 3000 if ctx.tier == "quick" else 60000)
    c = ctx.counters
    for e in ("stream", "easy", "mt", "raw", "block", "alone"):
        ctx.require("enc_" + e, c.get("enc_" + e, 0), 50)
    ctx.require("sync_flush_prefix_checked", c.get("sync_flush_prefix_checked", 0), 500)
    ctx.require("full_flush_prefix_checked", c.get("full_flush_prefix_checked", 0), 300)
    ctx.require("barriers", c.get("barriers", 0), 100)
    ctx.require("updates_accepted", c.get("updates_accepted", 0), 50)
    ctx.require("updates_refused", c.get("updates_refused", 0), 50)
    ctx.require("unsupported_sync_refused", c.get("unsupported_sync_refused", 0), 30)
    for mf in ("0x3", "0x4", "0x12", "0x13", "0x14"):
        ctx.require("sync_mf_" + mf, c.get("sync_mf_" + mf, 0), 10)
    ctx.require("pending_replay", ctx.visit(12, 2), 100)
    ctx.require("index_checked", c.get("index_checked", 0), 300)
