"""C10 - allocation failure at any point is reported cleanly and nothing leaks."""
import build

SRC = ["hx_mem.c", "dec_common.c", "gen_stream.c", "vh.c"]
NSCEN = 26
RULE = ("case = one of 26 API scenarios (init + coding loop of 14 coders incl. both threaded ones and three auto-detected "
        "formats; lzma_index append across group boundaries / cat / dup / encode+decode; file-info decoder; "
        "lzma_filters_copy; lzma_filters_update; filter strings; Block Header and filter-flags parsers; single-call buffer "
        "coders; index hash; MicroLZMA with handle reuse) run with a monitoring lzma_allocator: a clean run counts N "
        "allocations, then for EVERY k <= N+2 'fail exactly the k-th' and 'fail from the k-th on', then random failure "
        "subsets. After each: result must be the memory error (or a correct result), no double free / unknown free, no "
        "live block after *_end, nothing left by a failed initialisation of a fresh handle, caller-owned objects (index, "
        "filter array) unchanged. Reuse mode: random orders of re-initialising one lzma_stream with different coders "
        "without lzma_end, with failures interleaved, then lzma_end -> live set empty; a handle must be usable after a "
        "failure. distinct = (scenario, data seed); non-trivial = at least one planned failure fired")


def prepare(tier):
    return build.build_harness("asan", "hx_mem", SRC)


def run(ctx):
    exe = prepare(ctx.tier)
    q = ctx.tier == "quick"
    ctx.rule = RULE
    ctx.assumptions = [
        "exhaustive in k per scenario (single failure and fail-from-k); the scenarios are a catalogue; threaded coders "
        "allocate from several threads so k is a global ordinal there",
        "gcc ASan+UBSan build with assertions; allocation goes through the public lzma_allocator interface",
    ]
    ctx.run_shards(exe, ["--mode", "c10"], NSCEN * (2 if q else 30), label="enum")
    ctx.run_shards(exe, ["--mode", "c10h"], 1500 if q else 40000, label="reuse")
    c = ctx.counters
    ctx.extra_cov["exhaustive_in_k_per_scenario"] = True
    ctx.require("plans_fired", c.get("plans_fired", 0), 1000)
    ctx.require("reuse_histories", c.get("reuse_histories", 0), 1000)
    ctx.require("reuse_failures_injected", c.get("reuse_failures_injected", 0), 500)
    names = ["easy_enc", "stream_enc", "mt_enc", "alone_enc", "raw_enc", "block_enc", "stream_dec", "mt_dec", "auto_dec_xz",
             "auto_dec_lzma", "auto_dec_lz", "alone_dec", "lzip_dec", "raw_dec", "index_append", "index_cat", "index_dup",
             "index_codec", "file_info", "filters_copy", "filters_update", "strings", "header_parsers", "buffer_apis",
             "index_hash", "micro_enc"]
    for n in names:
        ctx.require("scen_" + n, c.get("scen_" + n, 0), 1)
