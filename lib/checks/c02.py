"""C02 - encoder output is a valid instance of the published file formats."""
import build

SRC = ["hx_rt.c", "vh.c", "ref/refdec.c", "ref/check_ref.c", "ref/bcj_ref.c"]
RULE = ("case = (entry point, configuration, input, slicing) as in C01; the bytes produced by the real encoder are judged by "
        "refdec, an independent decoder and field checker written from doc/xz-file-format.txt, doc/lzma-file-format.txt, "
        "the LZMA specification and the LZMA2 chunk layout: it must accept the stream, recover the input, consume every "
        "byte, and every stored field (Stream Flags, CRC32s, Block Header sizes, padding, Check, Index records, Backward "
        "Size, LZMA2 chunk headers and order, .lzma header) must describe the data; no match may reach beyond the declared "
        "dictionary. bound mode: single-call encoders with out_size = *_bound(n) on mostly incompressible data with n at "
        "0, 1, 64 KiB*k +-2, 2 MiB*k +-2 must not fail. distinct = hash(input, configuration, entry point); non-trivial = "
        ">= 2 input bytes / n > 0")


def prepare(tier):
    return build.build_harness("asan", "hx_rt_ref", SRC, extra_cflags=["-DWITH_REFDEC"])


def run(ctx):
    exe = prepare(ctx.tier)
    q = ctx.tier == "quick"
    ctx.rule = RULE
    ctx.assumptions = [
        "refdec is independent code (no liblzma source) but one reading of the documents; the LZMA2 chunk layout is taken "
        "from the LZMA SDK / XZ Embedded descriptions; it was cross-validated against tests/files, 50 000 liblzma round "
        "trips, 300 000+ mutated inputs and 1.1 million synthesised streams (see DESIGN.md section 7)",
        "gcc ASan+UBSan build with assertions; inputs and configurations are sampled",
    ]
    ctx.run_shards(exe, ["--prop", "C02"], 2400 if q else 40000, label="streams")
    ctx.run_shards(exe, ["--prop", "C02", "--mode", "c02bound"], 400 if q else 5000, label="bound")
    c = ctx.counters
    for ck in ("0", "1", "4", "10"):
        ctx.require("refdec_check_" + ck, c.get("refdec_check_" + ck, 0), 20)
    ctx.require("refdec_mt_streams", c.get("refdec_mt_streams", 0), 50)
    ctx.require("refdec_st_streams", c.get("refdec_st_streams", 0), 200)
    ctx.require("blocks_with_uncompressed_chunks", c.get("blocks_with_uncompressed_chunks", 0), 50)
    ctx.require("blocks_with_size_fields", c.get("blocks_with_size_fields", 0), 50)
    ctx.require("refdec_streams_ok", c.get("refdec_streams_ok", 0), 1500)
    ctx.require("bound_cases_incompressible", c.get("bound_cases_incompressible", 0), 100)
    for ep in ("alone", "raw", "microlzma", "block", "block_buffer", "raw_buffer"):
        ctx.require("ep_" + ep, c.get("ep_" + ep, 0), 5)
