"""C11 - the lzma_code calling protocol is enforced and accounted exactly."""
import build

SRC = ["hx_proto.c", "dec_common.c", "gen_stream.c", "vh.c"]
RULE = ("case = random call history (60-300 calls) on a handle of one of 18 coder types (8 encoders, 10 decoders; decoder "
        "input valid or 25% mutated): each call draws action, input slice and output slice; 1 call in 14 is made illegal "
        "(unsupported action, out-of-range action, action switched mid-flush, avail_in changed mid-flush, NULL buffer with "
        "non-zero length, non-zero reserved field) plus use before init / on a handle that was another coder before (no "
        "lzma_end in between) / after lzma_end / after a fatal error / after "
        "END. A reference model of the wrapper written from base.h (DESIGN.md Appendix C) runs in lock-step and predicts "
        "what the wrapper guarantees; buffers sit against guard pages. Histories that end normally must still give the "
        "right data. distinct = hash of the call sequence; non-trivial = >= 1 illegal step or BUF_ERROR episode")


def prepare(tier):
    return build.build_harness("asan", "hx_proto", SRC)


def run(ctx):
    exe = prepare(ctx.tier)
    ctx.rule = RULE
    ctx.assumptions = [
        "the model is partial on purpose: it takes the coder's own result (bytes moved, OK/END/error) as input and "
        "predicts only wrapper-level guarantees",
        "after LZMA_PROG_ERROR the documentation forbids further lzma_code calls: the history stops there and only "
        "lzma_end is exercised",
        "gcc ASan+UBSan build with assertions",
    ]
    ctx.run_shards(exe, [], 20000 if ctx.tier == "quick" else 500000)
    c = ctx.counters
    for t in ("easy_enc", "stream_enc", "mt_enc", "alone_enc", "raw_enc", "block_enc", "micro_enc", "index_enc",
              "stream_dec", "mt_dec", "auto_dec", "alone_dec", "lzip_dec", "raw_dec", "block_dec", "index_dec",
              "micro_dec", "fileinfo_dec"):
        ctx.require("t_" + t, c.get("t_" + t, 0), 100)
    ctx.require("illegal_steps", c.get("illegal_steps", 0), 2000)
    ctx.require("handle_reuse_histories", c.get("handle_reuse_histories", 0), 1000)
    ctx.require("buf_error_episodes", c.get("buf_error_episodes", 0), 500)
    ctx.require("histories_with_post_end_calls", c.get("histories_with_post_end_calls", 0), 500)
    ctx.require("histories_reaching_fatal_error", c.get("histories_reaching_fatal_error", 0), 200)
    ctx.require("flushes_completed", c.get("flushes_completed", 0), 500)
    ctx.require("encoder_histories_verified", c.get("encoder_histories_verified", 0), 300)
    ctx.require("decoder_histories_verified", c.get("decoder_histories_verified", 0), 300)
