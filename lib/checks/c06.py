"""C06 - results do not depend on buffer slicing; encoder output is deterministic."""
import os
import build

RULE = ("decoder half: case = (input from tests/files | liblzma encoder output | garbage, 45% mutated; decoder; flags; "
        "FINISH/RUN) decoded once whole-buffer (canonical) and then under ALL two-piece splits (inputs <= 1500 B quick / "
        "6000 B thorough; 40 random splits otherwise), 1-byte-in/1-byte-out, 1-byte-in, 1-byte-out and 6 random slicings "
        "with empty calls; output bytes, final status and total_in must equal the canonical run (behind a BCJ filter on "
        "rejected input: status and total_in only; threaded decoder on rejected input: status and output only). "
        "encoder half: same (data, options) encoded whole-buffer and under 6 other slicings / thread counts 1..8 / "
        "timeouts {0,1,50 ms} / filter chain via its textual form: bytes must be identical. "
        "distinct = hash(input bytes, coder, flags); non-trivial = at least one suspension strictly inside the input")


def prepare(tier):
    a = build.build_harness("asan", "hx_dec", ["hx_dec.c", "dec_common.c", "gen_stream.c", "vh.c"])
    b = build.build_harness("asan", "hx_rt", ["hx_rt.c", "vh.c"])
    return a, b


def run(ctx):
    dec, rt = prepare(ctx.tier)
    corpus = os.path.join(build.SRC, "tests", "files")
    quick = ctx.tier == "quick"
    ctx.rule = RULE
    ctx.assumptions = [
        "self-differential against the whole-buffer run of the same build (gcc ASan+UBSan, assertions live)",
        "all 2-partitions of short inputs plus random k-partitions; not all partitions of long inputs",
        "file_info decoder read-size independence is checked by C13 (its total_in is documented as inexact)",
        "threaded decoder: total_in at a fatal error depends on read-ahead and is not compared (status and output are)",
    ]
    ctx.run_shards(dec, ["--mode", "c06", "--corpus", corpus], 700 if quick else 7000, label="dec")
    ctx.run_shards(rt, ["--mode", "c06enc"], 800 if quick else 8000, label="enc")
    c = ctx.counters
    for d in ("stream", "stream_mt", "auto", "alone", "lzip", "microlzma", "raw", "block", "index"):
        ctx.require("dec_" + d, c.get("dec_" + d, 0), 4)
    ctx.require("cases_all_two_piece_splits", c.get("cases_all_two_piece_splits", 0), 100)
    ctx.require("cases_rejected_input", c.get("cases_rejected_input", 0), 50)
    ctx.require("cases_accepted_input", c.get("cases_accepted_input", 0), 50)
    ctx.require("cases_via_bcj", c.get("cases_via_bcj", 0), 10)
    ctx.require("enc_stream_mt", c.get("enc_stream_mt", 0), 10)
    ctx.require("string_form_variants", c.get("string_form_variants", 0), 20)
    # every resume point of the LZMA decoder (sequence values seen on entry), the LZMA2 sequences, BCJ hold-back
    lz = [ctx.visit(0, v) for v in range(23)]
    ctx.extra_cov["lzma_resume_points_entered"] = sum(1 for v in lz if v)
    ctx.require("lzma_resume_points_entered", sum(1 for v in lz if v), 20)
    ctx.require("lzma2_sequences_entered", sum(1 for v in range(8) if ctx.visit(1, v)), 7)
    ctx.require("bcj_holdback", ctx.visit(9, 2), 50)
    ctx.require("bcj_buffered", ctx.visit(9, 3), 50)
