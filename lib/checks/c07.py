"""C07 - threaded decompression is equivalent to single-threaded under every schedule."""
import os
import build

SRC = ["hx_mt.c", "sched/sched.c", "dec_common.c", "gen_stream.c", "vh.c", "ref/synth.c", "ref/check_ref.c", "ref/bcj_ref.c"]
WRAP = ["pthread_mutex_lock", "pthread_mutex_unlock", "pthread_mutex_init", "pthread_mutex_destroy", "pthread_cond_init",
        "pthread_cond_destroy", "pthread_cond_wait", "pthread_cond_timedwait", "pthread_cond_signal",
        "pthread_cond_broadcast", "pthread_create", "pthread_join"]
LDWRAP = ["-Wl," + ",".join("--wrap=" + w for w in WRAP)]
RULE = ("case = (.xz file of 1-40 Blocks from the threaded/single-threaded encoders, the independent synthesiser (mixed size "
        "fields, empty Blocks, several Streams, reserved/no checks) or tests/files; 50% corrupted or truncated; threads 1-8; "
        "memlimit_threading in {1, ~100 KiB, ~MiBs, unlimited}; memlimit_stop small (with lzma_memlimit_set retry) or "
        "unlimited; timeout 0/1/20 ms; flag subset incl. FAIL_FAST; LZMA_FINISH or LZMA_RUN only; slicing plan; optional "
        "lzma_end after the k-th call). The threaded decoder runs (a) under ThreadSanitizer with seeded yield/sleep "
        "perturbation at every pthread operation (chaos), (b) under ASan+UBSan with the same perturbation, (c) under "
        "ASan+UBSan with a serialising randomised scheduler (uniform / PCT / starvation policies, scheduler-chosen "
        "time-outs and spurious wake-ups) that detects deadlock and lost wake-ups as 'no enabled thread'. Oracle: output "
        "bytes and final status of lzma_stream_decoder on the same bytes (behind BCJ on rejected input: status and output "
        "length; FAIL_FAST: output must be a prefix). distinct = schedule hash (serial) / (file, options, case) (chaos); "
        "non-trivial = at least two Blocks were handed to worker threads")


def prepare(tier):
    out = {}
    for fl in ("tsan", "asan"):
        out[fl] = build.build_harness(fl, "hx_mt", SRC, extra_cflags=["-DWITH_SYNTH"], extra_ldflags=LDWRAP)
    return out


def run(ctx):
    exes = prepare(ctx.tier)
    corpus = os.path.join(build.SRC, "tests", "files")
    q = ctx.tier == "quick"
    ctx.rule = RULE
    ctx.assumptions = [
        "interleavings are sampled: TSan reports only races that the executed schedules make observable; the serial "
        "scheduler explores orders of synchronisation operations, not of unsynchronised accesses (TSan's part)",
        "the chaos shim keeps no shared state (no happens-before edge is added that could hide a race)",
        "real ETIMEDOUT timing is modelled in serial mode as a scheduler choice",
        "a wall-clock watchdog firing is inconclusive; deadlocks are decided by the serial scheduler's model state",
    ]
    args = ["--mode", "c07", "--corpus", corpus]
    ctx.run_shards(exes["tsan"], args + ["--extra", "chaos"], 1300 if q else 30000, label="tsan-chaos", timeout=2400)
    ctx.run_shards(exes["asan"], args + ["--extra", "chaos"], 1300 if q else 30000, label="asan-chaos", timeout=2400)
    ctx.run_shards(exes["asan"], args + ["--extra", "serial"], 2400 if q else 60000, label="asan-serial", timeout=2400)
    c = ctx.counters
    ctx.require("cases_with_two_or_more_blocks_threaded", c.get("cases_with_two_or_more_blocks_threaded", 0), 400)
    ctx.require("cases_rejected_input", c.get("cases_rejected_input", 0), 500)
    ctx.require("fail_fast_cases", c.get("fail_fast_cases", 0), 100)
    ctx.require("early_end_cases", c.get("early_end_cases", 0), 100)
    ctx.require("serial_switches", c.get("serial_switches", 0), 100000)
    ctx.require("serial_timeouts_fired", c.get("serial_timeouts_fired", 0), 30)
    ev = {"direct_mode": 0, "partial_start": 2, "partial_enabled": 3, "stalled_break": 4, "thread_error": 5, "pending_error": 6,
          "cache_evict": 7, "mem_wait": 8, "timed_out": 9, "worker_reuse": 10, "memlimit_error": 13, "threads_end": 14}
    for name, i in ev.items():
        ctx.require("mtdec_" + name, ctx.visit(10, i), 5 if name == "cache_evict" else 20)
    ctx.extra_cov["engines"] = ["tsan+chaos", "asan+chaos", "asan+serial"]
