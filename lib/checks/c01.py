"""C01 - compression is lossless for every input and accepted configuration."""
import build

RULE = ("case = (entry point, encoder configuration, input, encoder slicing, decoder slicing, mf-offset bias) drawn from "
        "PRNG(VERIF_SEED, case index); every encode is decoded by the matching liblzma decoder and compared; a third of "
        "the cases are encoded twice, with hook H1 moving match-finder normalisation into the input, and the two outputs "
        "must be identical. distinct = hash(input, configuration, entry point); non-trivial = input >= 2 bytes and "
        "non-empty output")


def prepare(tier):
    return build.build_harness("asan", "hx_rt", ["hx_rt.c", "vh.c"])


def run(ctx):
    exe = prepare(ctx.tier)
    cases = 3200 if ctx.tier == "quick" else 60000
    ctx.rule = RULE
    ctx.assumptions = [
        "gcc ASan+UBSan build with assertions enabled (flavour asan); the matching liblzma decoder is the oracle "
        "(independence from liblzma's decoder is C02's job)",
        "hook H1 (lzma_verif_mf_offset_bias) is semantically neutral: positions are only used as differences",
        "input sizes are bounded (quick <= 512 KiB, thorough <= 8 MiB) except for the thorough tier's long haul: 20 "
        "streams of 4 GiB + 1..96 MiB (every match finder x fast/normal, .xz/.lzma/raw delta+LZMA2) piped encoder -> "
        "decoder -> comparison with the regenerated input, where the 32-bit position counters wrap without the hook; "
        "in the quick tier the normalisation point is reached only through the hook",
    ]
    ctx.run_shards(exe, ["--prop", "C01"], cases)
    if ctx.tier == "thorough":
        # the real thing: > 4 GiB through one encoder per match finder and mode, without the hook
        ctx.run_shards(exe, ["--mode", "longhaul"], 20, label="longhaul", timeout=6 * 3600,
                       env={"VERIF_CASE_WATCHDOG": "20000"})
        ctx.require("longhaul_real_normalizations", ctx.counters.get("longhaul_real_normalizations", 0), 20)
        ctx.require("longhaul_input_bytes", ctx.counters.get("longhaul_input_bytes", 0), 20 * (1 << 32))
    c = ctx.counters
    ctx.require("normalizations", c.get("normalizations", 0), 200 if ctx.tier == "quick" else 2000)
    for ep in ("easy", "stream", "stream_mt", "alone", "raw", "microlzma", "block", "easy_buffer",
               "stream_buffer", "block_buffer", "raw_buffer"):
        ctx.require("ep_" + ep, c.get("ep_" + ep, 0), 5)
    for mf in ("0x3", "0x4", "0x12", "0x13", "0x14"):
        ctx.require("mf_" + mf, c.get("mf_" + mf, 0), 5)
    ctx.require("cases_dict_wrapped", c.get("cases_dict_wrapped", 0), 20)
    ctx.require("cases_window_moved", c.get("cases_window_moved", 0), 5)
    ctx.require("microlzma_truncated", c.get("microlzma_truncated", 0), 5)
