"""C04 - no input can make a decoder or parser misbehave."""
import os
import build

SRC = ["hx_dec.c", "dec_common.c", "gen_stream.c", "vh.c"]
RULE = ("case = (input: tests/files | liblzma encoder output of every container kind | garbage, 70% mutated (half of the "
        ".xz mutants get their header/footer CRC32 repaired); decoder entry point (matching kind 80%, any kind 20%); flag "
        "subset; memlimit in {unlimited, 1, small, ~1-2 MiB}; MT: threads 1-4, memlimit_threading in {1, small, unlimited}, "
        "timeout 0/1 ms; slicing plan (whole, 1-byte, random with empty calls, 1-byte in, 1-byte out); LZMA_FINISH or "
        "LZMA_RUN-only ending; optional output cut-off) executed under gcc ASan+UBSan with assertions, again with the "
        "portable-C range decoder (flavour asan_c), and under clang MSan; guard pages bound the caller's buffers; a "
        "monitoring allocator checks leak balance after lzma_end; every return value must be documented; second stuck "
        "call must give LZMA_BUF_ERROR. One-shot parsers (block header, stream header/footer, filter flags, properties, "
        "VLI, index buffer/hash, stream_buffer_decode, filter strings) run in a separate sub-mode. "
        "distinct = hash(input, decoder, flags, slicing seed); non-trivial = decoder consumed more than a header or "
        "produced output")


def prepare(tier):
    out = {}
    for fl in ("asan", "asan_c", "msan"):
        out[fl] = build.build_harness(fl, "hx_dec", SRC)
    return out


def run(ctx):
    exes = prepare(ctx.tier)
    corpus = os.path.join(build.SRC, "tests", "files")
    q = ctx.tier == "quick"
    ctx.rule = RULE
    ctx.assumptions = [
        "a clean sanitizer run is not memory safety: intra-object overflows and accesses landing in another live object "
        "are invisible to red-zone tools; only paths the workload drives are observed",
        "x86-64 inline-assembly range decoder is invisible to compiler sanitizers: covered by guard pages and by the "
        "asan_c flavour (LZMA_RANGE_DECODER_CONFIG=0)",
        "allocations above 300 MiB are refused by the monitoring allocator (LZMA_MEM_ERROR is a documented result)",
        "per-call CPU budget 20 s; wall-clock watchdog firing = inconclusive",
    ]
    ctx.run_shards(exes["asan"], ["--mode", "c04", "--corpus", corpus], 24000 if q else 600000, label="asan")
    ctx.run_shards(exes["asan"], ["--mode", "c04p", "--corpus", corpus], 12000 if q else 300000, label="parsers")
    ctx.run_shards(exes["asan_c"], ["--mode", "c04", "--corpus", corpus], 8000 if q else 200000, label="asan_c")
    # MSan must not run the encoders (documented reads of uninitialised match-finder memory): inputs are written by
    # the asan build into a scratch corpus (plus tests/files) and the MSan build only decodes/mutates them.
    import shutil
    mcorp = os.path.join(ctx.scratch, "msan-corpus")
    shutil.copytree(corpus, mcorp)
    ctx.run_shards(exes["asan"], ["--mode", "dump", "--outdir", mcorp], 600 if q else 6000, label="dump")
    ctx.run_shards(exes["msan"], ["--mode", "c04", "--corpus", mcorp, "--extra", "noencode"], 8000 if q else 200000,
                   label="msan")
    c = ctx.counters
    for d in ("stream", "stream_mt", "auto", "alone", "lzip", "microlzma", "raw", "block", "index", "file_info"):
        ctx.require("dec_" + d, c.get("dec_" + d, 0), 100)
    for p in range(10):
        ctx.require("parser_%d" % p, c.get("parser_%d" % p, 0), 100)
    ctx.require("stuck_endings_buf_error", c.get("stuck_endings_buf_error", 0), 200)
    ctx.require("file_info_seeks", c.get("file_info_seeks", 0), 50)
    lz = [ctx.visit(0, v) for v in range(23)]
    ctx.require("lzma_resume_points_entered", sum(1 for v in lz if v), 20)
    ctx.extra_cov["flavours"] = ["asan", "asan_c", "msan"]
