"""C05 - corruption and truncation are never reported as success with different data."""
import build

SRC = ["hx_fmt.c", "dec_common.c", "gen_stream.c", "vh.c", "ref/refdec.c", "ref/synth.c", "ref/check_ref.c", "ref/bcj_ref.c"]
RULE = ("case = one valid base file of 60-2200 bytes (quick; <= 16 KiB thorough): .xz from the synthesiser or liblzma's "
        "encoders (all checks, 1-3 Blocks, 1-3 Streams with padding, with/without size fields), .lzma (known/unknown size, "
        "+-end marker), .lz (v0/v1, 1-3 members); a quarter are .xz files holding incompressible (stored) plaintext of every length residue mod 64 under CRC32/CRC64/SHA-256, so that every bit of every plaintext byte is flipped under every check. For each base file EVERY single-bit flip and EVERY truncation length is "
        "decoded (plus 300 random multi-byte overwrites/insertions/deletions; a quarter of the probes on a handle that "
        "decoded the undamaged file before and was re-initialised without lzma_end, a quarter with the input arriving "
        "in 1-7 byte pieces) by the stream decoder, the threaded decoder "
        "(sample), the auto decoder and the format's own decoder. Oracle: success (STREAM_END with all input offered and "
        "LZMA_FINISH) with output != original is a violation when the file has an integrity check; in .xz any damage outside "
        "the compressed payload (classified through refdec's field map of the original) must be an error; a cut file is "
        "never complete. A damaged file that is itself valid by the format rules (refdec) and decodes to what liblzma "
        "delivered - e.g. a cut at a Stream/member boundary - is classified, not alarmed. evaluations = decodes; distinct = "
        "base files (each is an exhaustive enumeration of 9*len faults)")


def prepare(tier):
    return build.build_harness("asan", "hx_fmt", SRC)


def run(ctx):
    exe = prepare(ctx.tier)
    ctx.rule = RULE
    ctx.assumptions = [
        "exhaustive over bit positions and truncation lengths of each base file; the base files are sampled",
        "undetected corruption with a 32-bit check has probability 2^-32 per random damage; such an event would be "
        "reported with its witness",
        "LZMA_CHECK_NONE streams and .lzma payload damage are outside the guarantee (statement); they still run for "
        "the truncation and non-payload rules",
    ]
    ctx.run_shards(exe, ["--mode", "c05"], 128 if ctx.tier == "quick" else 1280, timeout=7200,
                   env={"VERIF_CASE_WATCHDOG": "3000"})
    c = ctx.counters
    ctx.exhaustive = False
    ctx.extra_cov["exhaustive_per_base_file"] = True
    ctx.require("base_files", c.get("base_files", 0), 60)
    ctx.require("base_stored_payload", c.get("base_stored_payload", 0), 8)
    for f in ("0", "1", "2"):
        ctx.require("base_fmt_" + f, c.get("base_fmt_" + f, 0), 3)
    ctx.require("bit_flips", c.get("bit_flips", 0), 100000)
    ctx.require("truncations", c.get("truncations", 0), 10000)
    ctx.require("reused_handle_probes", c.get("reused_handle_probes", 0), 10000)
    ctx.require("sliced_probes", c.get("sliced_probes", 0), 10000)
    ctx.require("damage_detected", c.get("damage_detected", 0), 100000)
