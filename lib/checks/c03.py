"""C03 - decoders accept exactly the valid streams and decode them as specified."""
import os
import build

SRC = ["hx_fmt.c", "dec_common.c", "gen_stream.c", "vh.c", "ref/refdec.c", "ref/synth.c", "ref/check_ref.c", "ref/bcj_ref.c"]
RULE = ("case = stream from (60%) the independent synthesiser (random legal symbol choices through its own range encoder: "
        "all lc/lp/pb, LZMA2 chunks with dictionary/state resets, property changes, uncompressed chunks in all legal orders, "
        "Blocks with/without size fields, empty Blocks, header padding, 1-4 filters, all Check IDs incl. reserved, multiple "
        "Blocks and Streams; also single Blocks and raw LZMA1/LZMA2 chains), (20%) liblzma's encoders, (20%) tests/files; 60% "
        "then mutated (bit flips, overwrites, truncation, insertion, deletion, off-by-one, appended bytes; half of the .xz "
        "mutants get header/footer CRC32 repaired). Three-way oracle: synthesiser plaintext, refdec verdict/output, liblzma "
        "verdict/output: valid => liblzma accepts with identical bytes and input position; invalid or unsupported => liblzma "
        "does not report success; relaxation zone / limits => no verdict. distinct = hash(stream, kind); non-trivial = parse "
        "reached a Block or got past the first header")


def prepare(tier):
    return build.build_harness("asan", "hx_fmt", SRC)


def run(ctx):
    exe = prepare(ctx.tier)
    corpus = os.path.join(build.SRC, "tests", "files")
    ctx.rule = RULE
    ctx.assumptions = [
        "refdec and synth are independent of liblzma but one reading of the documents (Appendix A of DESIGN.md); "
        "documented relaxations (dictionary slack, unverifiable Check IDs, unsupported filters) give no verdict or are "
        "compared on output only",
        "error kinds are not compared, only success vs failure, output bytes and input position",
        "gcc ASan+UBSan build with assertions (so every case doubles as a C04 case)",
    ]
    ctx.run_shards(exe, ["--mode", "c03", "--corpus", corpus], 60000 if ctx.tier == "quick" else 1200000)
    c = ctx.counters
    for n in ("ctrl_01", "ctrl_02", "ctrl_80", "ctrl_A0", "ctrl_C0", "ctrl_E0"):
        ctx.require(n, c.get(n, 0), 100)
    for n in ("chain_len_1", "chain_len_2", "chain_len_3", "chain_len_4"):
        ctx.require(n, c.get(n, 0), 50)
    ctx.require("valid_accepted", c.get("valid_accepted", 0), 3000)
    ctx.require("invalid_rejected", c.get("invalid_rejected", 0), 3000)
    ctx.require("unsupported_rejected", c.get("unsupported_rejected", 0), 20)
    ctx.require("empty_blocks", c.get("empty_blocks", 0), 50)
    ctx.require("blocks_without_size_fields", c.get("blocks_without_size_fields", 0), 200)
    ctx.require("blocks_with_size_fields", c.get("blocks_with_size_fields", 0), 200)
    ctx.require("nondefault_lclppb", c.get("nondefault_lclppb", 0), 500)
    ctx.require("multi_stream", c.get("multi_stream", 0), 100)
    ctx.require("reserved_check_ids", c.get("reserved_check_ids", 0), 50)
    rej = c.get("invalid_rejected", 0) + c.get("unsupported_rejected", 0)
    ctx.require("rejected_after_first_header_pct", 100 * c.get("rejected_after_first_header", 0) // max(rej, 1), 25)
