"""C13 - the Index and file-info APIs describe files exactly; random access is correct."""
import build

SRC = ["hx_index.c", "gen_stream.c", "vh.c"]
RULE = ("ops mode: case = random history (20-300 operations) of init / append (incl. bursts crossing the 512-record group "
        "size and sizes near LZMA_VLI_MAX and the Backward Size limit) / stream_flags / stream_padding / cat / dup / "
        "buffer+streaming encode-decode / three long-lived iterators (init, rewind, next in all four modes, locate) kept "
        "alive across append and cat, executed on the real lzma_index objects and on a list-of-streams/list-of-records "
        "model; every query, every iterator field and every success/failure is compared, failed operations must leave "
        "all queries unchanged, and the allocator must be balanced at the end. "
        "files mode: case = valid multi-Stream/multi-Block .xz file with Stream Padding (20% mutated) read by the "
        "file-info decoder under 8 read plans (sizes 1..64 KiB, random pieces, with/without LZMA_FINISH, seeks honoured): "
        "result must not depend on the plan, never seek beyond the file, agree with the generator's figures; locate() -> "
        "Block decode at the reported compressed offset must give that plaintext range. "
        "distinct = hash(history) / hash(file); non-trivial = a cat or group crossing happened / >= 2 Streams or Blocks")


def prepare(tier):
    return build.build_harness("asan", "hx_index", SRC)


def run(ctx):
    exe = prepare(ctx.tier)
    q = ctx.tier == "quick"
    ctx.rule = RULE
    ctx.assumptions = [
        "the model's limits are the format's (sizes <= 2^63-1, Index field <= 2^34 bytes, sums per Stream); "
        "memused is compared with lzma_index_memusage(streams, blocks) and with the monitored allocation",
        "files come from liblzma's encoders; xz --list figures are compared by the C13 CLI part when refdec is present",
        "gcc ASan+UBSan build with assertions",
    ]
    ctx.run_shards(exe, ["--mode", "ops"], 5000 if q else 100000, label="ops")
    ctx.run_shards(exe, ["--mode", "files"], 1200 if q else 24000, label="files")
    c = ctx.counters
    ctx.require("cat_ops", c.get("cat_ops", 0), 1000)
    ctx.require("dup_ops", c.get("dup_ops", 0), 1000)
    ctx.require("limit_failures", c.get("limit_failures", 0), 500)
    ctx.require("iterators_alive_across_cat", c.get("iterators_alive_across_cat", 0), 200)
    ctx.require("group_boundary_crossings", c.get("group_boundary_crossings", 0), 100)
    ctx.require("files_valid", c.get("files_valid", 0), 300)
    ctx.require("files_multi_stream", c.get("files_multi_stream", 0), 100)
    ctx.require("file_info_seeks", c.get("file_info_seeks", 0), 1000)
    ctx.require("random_access_blocks_verified", c.get("random_access_blocks_verified", 0), 1000)
