"""C13 - the Index and file-info APIs describe files exactly; random access is correct."""
import build

SRC = ["hx_index.c", "gen_stream.c", "vh.c"]
RULE = ("ops mode: case = random history (20-300 operations) of init / append (incl. bursts crossing the 512-record group "
        "size and sizes near LZMA_VLI_MAX and the Backward Size limit) / stream_flags / stream_padding / cat / dup / "
        "buffer+streaming encode-decode / three long-lived iterators (init, rewind, next in all four modes, locate) kept "
        "alive across append and cat, executed on the real lzma_index objects and on a list-of-streams/list-of-records "
        "model; every query, every iterator field and every success/failure is compared, failed operations must leave "
        "all queries unchanged, and the allocator must be balanced at the end. "
        "files mode: case = valid multi-Stream/multi-Block .xz file with Stream Padding (20% mutated) read by the "
        "file-info decoder under 8 read plans (sizes 1..64 KiB, random pieces, with/without LZMA_FINISH, seeks honoured): "
        "result must not depend on the plan, never seek beyond the file, agree with the generator's figures; locate() -> "
        "Block decode at the reported compressed offset must give that plaintext range. "
        "distinct = hash(history) / hash(file); non-trivial = a cat or group crossing happened / >= 2 Streams or Blocks")


def prepare(tier):
    return build.build_harness("asan", "hx_index", SRC)


def run(ctx):
    exe = prepare(ctx.tier)
    q = ctx.tier == "quick"
    ctx.rule = RULE
    ctx.assumptions = [
        "the model's limits are the format's (sizes <= 2^63-1, Index field <= 2^34 bytes, sums per Stream); "
        "memused is compared with lzma_index_memusage(streams, blocks) and with the monitored allocation",
        "files come from liblzma's encoders; xz --list figures are compared by the C13 CLI part when refdec is present",
        "gcc ASan+UBSan build with assertions",
    ]
    ctx.run_shards(exe, ["--mode", "ops"], 5000 if q else 100000, label="ops")
    ctx.run_shards(exe, ["--mode", "files"], 1200 if q else 24000, label="files")
    list_part(ctx, 150 if q else 3000)
    c = ctx.counters
    ctx.require("xz_list_files", c.get("xz_list_files", 0), 100)
    ctx.require("xz_list_blocks_compared", c.get("xz_list_blocks_compared", 0), 300)
    ctx.require("cat_ops", c.get("cat_ops", 0), 1000)
    ctx.require("dup_ops", c.get("dup_ops", 0), 1000)
    ctx.require("limit_failures", c.get("limit_failures", 0), 500)
    ctx.require("iterators_alive_across_cat", c.get("iterators_alive_across_cat", 0), 200)
    ctx.require("group_boundary_crossings", c.get("group_boundary_crossings", 0), 100)
    ctx.require("files_valid", c.get("files_valid", 0), 300)
    ctx.require("files_multi_stream", c.get("files_multi_stream", 0), 100)
    ctx.require("file_info_seeks", c.get("file_info_seeks", 0), 1000)
    ctx.require("random_access_blocks_verified", c.get("random_access_blocks_verified", 0), 1000)


def list_part(ctx, nfiles):
    """xz --list must report the figures of an independent parse of the same file (lib/models/xzparse.py)."""
    import os, random, subprocess, sys, concurrent.futures
    sys.path.insert(0, os.path.join(build.VERIF, "lib"))
    from models import xzparse
    xz = os.path.join(build.build_flavour("rel"), "xz")
    d = os.path.join(ctx.scratch, "list")
    os.makedirs(d, exist_ok=True)
    env = {"PATH": os.environ.get("PATH", ""), "LC_ALL": "C"}

    def one(i):
        rng = random.Random((ctx.seed << 20) ^ i ^ 0xC13)
        nstreams = rng.choice([1, 1, 1, 2, 3, 4])
        data = b""
        desc = []
        for s in range(nstreams):
            n = rng.choice([0, 1, 100, 5000, 12000, 70000, rng.randrange(0, 300000)])
            kind = rng.random()
            plain = (os.urandom(n) if kind < 0.3 else (b"abcdefgh" * (n // 8 + 1))[:n] if kind < 0.6 else
                     bytes(rng.randrange(97, 105) for _ in range(min(n, 20000))) * (n // 20000 + 1))[:n]
            args = [xz, "-c", "-T%d" % rng.choice([1, 1, 2, 4]), "-%d" % rng.choice([0, 1, 2])]
            chk = rng.choice(["none", "crc32", "crc64", "sha256"])
            args += ["-C", chk]
            if rng.random() < 0.08 and 0 < n <= 20000:
                args += ["--block-size=%d" % rng.choice([1, 2, 7])]          # thousands of Blocks: an Index larger than xz's 8 KiB reads
            elif rng.random() < 0.6:
                args += ["--block-size=%d" % rng.choice([4096, 10000, 65536, 100000])]
            elif rng.random() < 0.5 and n > 10:
                a = rng.randrange(1, n)
                args += ["--block-list=%d,%d" % (a, max(1, (n - a) // 2))]
            r = subprocess.run(args, input=plain, stdout=subprocess.PIPE, stderr=subprocess.PIPE, env=env)
            if r.returncode != 0:
                return ("skip", i, "xz failed: %s" % r.stderr[:200])
            data += r.stdout
            # Stream Padding: small, and sizes that put the Stream Footer / Index of the Stream before it just inside or
            # outside the 8 KiB window xz --list reads backwards from the end
            pad = 4 * rng.choice([0, 0, 1, 2, 7, 2040, 2041, 2042, 2043, 2044, 2045, 2046, 2047, 2048, 2049, 4095, 4096, rng.randrange(0, 5000)]) if (s + 1 < nstreams or rng.random() < 0.3) else 0
            data += b"\0" * pad
            desc.append("%dB/%s/pad%d %s" % (n, chk, pad, " ".join(args[2:])))
        path = os.path.join(d, "f%d.xz" % i)
        with open(path, "wb") as f:
            f.write(data)
        r = subprocess.run([xz, "--robot", "--list", "-vv", path], stdout=subprocess.PIPE, stderr=subprocess.PIPE, env=env)
        os.unlink(path)
        if r.returncode != 0:
            return ("viol", i, "xz-list-fails-on-valid-file", "xz --list exit %d: %s; %s" % (r.returncode, r.stderr[:200], desc))
        try:
            model = xzparse.parse(data)
        except Exception as e:  # the independent parser must handle xz's own output
            return ("skip", i, "model parse failed: %r" % (e,))
        lines = [ln.split("\t") for ln in r.stdout.decode().splitlines()]
        nblocks = 0
        problems = []
        tot = [ln for ln in lines if ln[0] == "file"]
        mstreams = len(model)
        mblocks = sum(len(s["blocks"]) for s in model)
        mcomp = len(data) - sum(0 for _ in [0])
        muncomp = sum(s["uncomp"] for s in model)
        mpad = sum(s["padding"] for s in model)
        if not tot:
            problems.append("no file line")
        else:
            t = tot[0]
            got = (int(t[1]), int(t[2]), int(t[3]), int(t[4]), int(t[7]))
            want = (mstreams, mblocks, len(data), muncomp, mpad)
            if got != want:
                problems.append("file line %s != model %s" % (got, want))
            names = set(t[6].split(","))
            wantn = set(xzparse.CHECK_NAME.get(s["check"], "Unknown-%d" % s["check"]) for s in model)
            if names != wantn:
                problems.append("checks %s != model %s" % (sorted(names), sorted(wantn)))
        sl = [ln for ln in lines if ln[0] == "stream"]
        if len(sl) != mstreams:
            problems.append("%d stream lines, model %d" % (len(sl), mstreams))
        else:
            uo = 0
            for ln, ms in zip(sl, model):
                got = (int(ln[2]), int(ln[3]), int(ln[4]), int(ln[5]), int(ln[6]), int(ln[9]))
                want = (len(ms["blocks"]), ms["offset"], uo, ms["size"], ms["uncomp"], ms["padding"])
                if got != want:
                    problems.append("stream %s: %s != model %s" % (ln[1], got, want))
                uo += ms["uncomp"]
        bl = [ln for ln in lines if ln[0] == "block"]
        mb = [(si + 1, bi + 1, b, ms) for si, ms in enumerate(model) for bi, b in enumerate(ms["blocks"])]
        if len(bl) != len(mb):
            problems.append("%d block lines, model %d" % (len(bl), len(mb)))
        else:
            ubase = {}
            acc = 0
            for si, ms in enumerate(model):
                ubase[si + 1] = acc
                acc += ms["uncomp"]
            for k, (ln, (sn, bn, b, ms)) in enumerate(zip(bl, mb)):
                got = (int(ln[1]), int(ln[2]), int(ln[3]), int(ln[4]), int(ln[5]), int(ln[6]), int(ln[7]), ln[10], int(ln[11]), int(ln[13]))
                want = (sn, bn, k + 1, b["coffset"], ubase[sn] + b["uoffset"], b["total"], b["uncomp"],
                        # xz prints CRC32/CRC64 as an integer (stored little endian), other checks as the raw bytes
                        ((b["check_value"][::-1] if ms["check"] in (1, 4) else b["check_value"]).hex() or "---"), b["header"], b["comp_data"])
                if got != want:
                    problems.append("block %d: %s != model %s" % (k + 1, got, want))
                    break
                nblocks += 1
        if problems:
            return ("viol", i, "xz-list-differs-from-file", "; ".join(problems[:3]) + "; file: " + " | ".join(desc))
        return ("ok", i, nblocks, mstreams, " | ".join(desc))

    with concurrent.futures.ThreadPoolExecutor(max_workers=16) as ex:
        for res in ex.map(one, range(nfiles)):
            ctx.evaluations += 1
            if res[0] == "viol":
                ctx.violation(res[2], res[3], {"how": "VERIF_SEED=%d file index %d: %s" % (ctx.seed, res[1], res[3])})
            elif res[0] == "skip":
                ctx.count("xz_list_skipped")
                if len(ctx.notes) < 10:
                    ctx.notes.append(res[2])
            else:
                ctx.count("xz_list_files")
                ctx.count("xz_list_blocks_compared", res[2])
                if res[3] > 1:
                    ctx.count("xz_list_multi_stream")
                ctx.add_hash(hash((res[1], res[4])) & 0xFFFFFFFFFFFFFFFF)
                if len(ctx.samples) < 12 and res[1] < 3:
                    ctx.samples.append("xz --list: " + res[4])
