"""C16 - legacy .lzma, foreign .lz and auto-detection follow their format rules."""
import os
import build

SRC = ["hx_fmt.c", "dec_common.c", "gen_stream.c", "vh.c", "ref/refdec.c", "ref/synth.c", "ref/check_ref.c", "ref/bcj_ref.c"]
RULE = ("case = .lzma (all known/unknown size x end-marker variants, any dictionary field, all lc/lp/pb), .lz (v0/v1, every "
        "dictionary code, multi-member, trailing data starting with 0-3 magic bytes) or .xz file from the independent "
        "synthesiser, liblzma's encoder or tests/files; 30% mutated, 20% followed by Stream Padding of 0-12 bytes / a "
        "magic prefix / garbage / another file of any format; decoder flags drawn from CONCATENATED, TELL_NO_CHECK, "
        "TELL_UNSUPPORTED_CHECK, IGNORE_CHECK; LZMA_FINISH or LZMA_RUN only. Oracles: refdec's .lzma/.lz/.xz rules vs the "
        "specific decoder (accept/reject, content, input position after the end); auto decoder vs the specific decoder "
        "chosen by the documented detection rules (status, output, total_in), LZMA_FORMAT_ERROR for unrecognised input, "
        "'.lzma followed by anything' must fail with CONCATENATED. distinct = hash(file, flags); non-trivial = file longer "
        "than a .lzma header")


def prepare(tier):
    return build.build_harness("asan", "hx_fmt", SRC)


def run(ctx):
    exe = prepare(ctx.tier)
    corpus = os.path.join(build.SRC, "tests", "files")
    ctx.rule = RULE
    ctx.assumptions = [
        "header plausibility rules come from the documents (dictionary 2^n or 2^n+2^(n-1), size < 256 GiB); a .lzma "
        "dictionary field of 0 is accepted by the auto decoder and treated as no verdict",
        "error kinds are not compared; informational returns (NO_CHECK, UNSUPPORTED_CHECK, GET_CHECK) end the comparison",
    ]
    ctx.run_shards(exe, ["--mode", "c16", "--corpus", corpus], 40000 if ctx.tier == "quick" else 600000)
    c = ctx.counters
    for n in ("alone_known1_eopm0", "alone_known1_eopm1", "alone_known0_eopm1", "lzip_v0", "lzip_v1",
              "lzip_trailing_prefix0", "lzip_trailing_prefix1", "lzip_trailing_prefix2", "lzip_trailing_prefix3",
              "auto_xz", "auto_lzma", "auto_lzip", "auto_unrecognised"):
        ctx.require(n, c.get(n, 0), 20)
    ctx.require("specific_valid", c.get("specific_valid", 0), 2000)
    ctx.require("specific_invalid", c.get("specific_invalid", 0), 1000)
