"""C08 - threaded compression is correct, ordered and live under every schedule."""
import os
import build
from checks.c07 import SRC, LDWRAP

RULE = ("case = (input: compressible / incompressible / empty, size around block_size x threads; threads 1-8; block_size 4 KiB-"
        "1 MiB; preset or explicit chain; timeout 0/1/20 ms; action script of RUN / FULL_FLUSH / FULL_BARRIER at random "
        "offsets with lzma_filters_update between Blocks, then FINISH; output windows random or 1-3 bytes; optional "
        "two 24 MiB incompressible Blocks behind a three-filter chain per run (the worker falls back to "
        "lzma_block_uncomp_encode, which rewrites the Block Header); lifecycle event: lzma_end after the k-th call, or re-initialisation of the same handle with the same / another "
        "thread count and block size while workers may still run, followed by a full encode) executed (a) under "
        "ThreadSanitizer with seeded yield/sleep perturbation at every pthread operation, (b) under ASan+UBSan with the "
        "same perturbation, (c) under ASan+UBSan with the serialising randomised scheduler (deadlock = no enabled thread). "
        "Monitors: output is one Stream that the single-threaded decoder turns back into the input; FULL_FLUSH returning "
        "STREAM_END => a fresh decoder over the output so far yields all input so far; every flush/barrier offset is a "
        "Block boundary, no empty Block, no Block above block_size; lzma_get_progress between calls never exceeds the "
        "input given and finally equals (total_in, total_out). distinct = schedule hash (serial) / (input, script, case); "
        "non-trivial = at least two Blocks were given to worker threads")


def prepare(tier):
    out = {}
    for fl in ("tsan", "asan"):
        out[fl] = build.build_harness(fl, "hx_mt", SRC, extra_cflags=["-DWITH_SYNTH"], extra_ldflags=LDWRAP)
    return out


def run(ctx):
    exes = prepare(ctx.tier)
    q = ctx.tier == "quick"
    ctx.rule = RULE
    ctx.assumptions = [
        "interleavings are sampled; TSan reports only races the executed schedules make observable; the serial scheduler "
        "explores orders of synchronisation operations",
        "progress is sampled by the calling thread between lzma_code calls only (the API does not promise safety against "
        "a concurrent lzma_code)",
        "FULL_BARRIER is checked for the Block boundary, not for flushed output (base.h)",
    ]
    args = ["--mode", "c08"]
    ctx.run_shards(exes["tsan"], args + ["--extra", "chaos"], 700 if q else 20000, label="tsan-chaos", timeout=2400)
    ctx.run_shards(exes["asan"], args + ["--extra", "chaos"], 700 if q else 20000, label="asan-chaos", timeout=2400)
    ctx.run_shards(exes["asan"], args + ["--extra", "serial"], 1200 if q else 40000, label="asan-serial", timeout=2400)
    c = ctx.counters
    ctx.require("cases_two_or_more_blocks_in_flight", c.get("cases_two_or_more_blocks_in_flight", 0), 500)
    ctx.require("full_flush_checked", c.get("full_flush_checked", 0), 300)
    ctx.require("barriers", c.get("barriers", 0), 200)
    ctx.require("filter_updates", c.get("filter_updates", 0), 50)
    ctx.require("early_end_cases", c.get("early_end_cases", 0), 30)
    ctx.require("reinit_same_threads", c.get("reinit_same_threads", 0), 30)
    ctx.require("reinit_other_threads", c.get("reinit_other_threads", 0), 30)
    ctx.require("multi_block_outputs", c.get("multi_block_outputs", 0), 500)
    ctx.require("cases_incompressible_fallback", c.get("cases_incompressible_fallback", 0), 1)
    ctx.require("serial_switches", c.get("serial_switches", 0), 50000)
    ev = {"worker_reuse": 1, "wait": 3, "timed_out": 4, "reinit_end": 6, "flush_block": 8, "threads_end": 10}
    for name, i in ev.items():
        ctx.require("mtenc_" + name, ctx.visit(11, i), 20)
    ctx.extra_cov["engines"] = ["tsan+chaos", "asan+chaos", "asan+serial"]
