"""C17 - xz never loses user data when I/O fails, a signal arrives or the
process dies.

Engine: the real `xz` (flavour `rel`: -O2 -DNDEBUG, Landlock sandbox active, as
users run it) under the LD_PRELOAD interposer preload/libxzio.c, which logs
every file-related libc call on the scratch directory / stdin / stdout and
executes a fault plan.  For every operation mode a clean traced run yields the
list of N relevant calls; then EVERY k <= N is perturbed with every applicable
fault kind (hard errno, EINTR, EAGAIN, short count, handled signal, signal+EINTR,
SIGKILL).  Three oracles judge each run: the file-system state (snapshot
before/after, target validity decided by Python's lzma module / the known
plaintext), the offline trace automaton lib/models/unlink_order.py, and the
exit status / stderr.  A sample of plans is repeated under `strace -e inject`
without the preload as an independent injector/observer.

Re-run one case:  VERIF_ONLY_CASE='<mode>:<plan>' ./check C17 [--tier T --seed N]
(prints the run, its trace and the verdict; does not rewrite the evidence file).
"""
import collections
import concurrent.futures
import hashlib
import json
import lzma
import multiprocessing
import os
import random
import re
import shutil
import signal
import subprocess
import sys
import zlib

import build
from models import unlink_order as uo

WATCHDOG_S = 60
IOBUF = 8192
MAX_VIOLATION_KEYS = 40

SIGNAMES = {signal.SIGINT: "INT", signal.SIGTERM: "TERM", signal.SIGHUP: "HUP", signal.SIGPIPE: "PIPE",
            signal.SIGXCPU: "XCPU", signal.SIGXFSZ: "XFSZ"}
SIGS = {"quick": [signal.SIGINT, signal.SIGTERM, signal.SIGHUP, signal.SIGPIPE],
        "thorough": [signal.SIGINT, signal.SIGTERM, signal.SIGHUP, signal.SIGPIPE, signal.SIGXCPU, signal.SIGXFSZ]}
ERRNOS = {"quick": ["EIO", "ENOSPC", "EDQUOT"],
          "thorough": ["EIO", "ENOSPC", "EDQUOT", "EBADF", "EFBIG", "EROFS", "ENOMEM", "EPERM"]}
ERRNO_NUM = {"EIO": 5, "ENOSPC": 28, "EDQUOT": 122, "EINTR": 4, "EAGAIN": 11, "EBADF": 9, "EFBIG": 27, "EROFS": 30,
             "ENOMEM": 12, "EPERM": 1}

# The statement: "If any read, write, seek, sync or close fails ..."
LISTED = ("read", "write", "lseek", "fsync", "close")
# Calls whose EINTR/EAGAIN the I/O loops are designed to absorb.
ABSORBING = ("read", "write", "poll")
# Functions the interposer wraps (see preload/libxzio.c).
COVERED = {"open", "open64", "openat", "openat64", "read", "write", "lseek", "lseek64", "fsync", "fdatasync", "close",
           "unlink", "unlinkat", "fchmod", "fchown", "futimens", "utimensat", "fstat", "fstat64", "stat", "stat64",
           "lstat", "lstat64", "poll", "fcntl", "fcntl64", "posix_fadvise", "posix_fadvise64"}
# File-related libc entry points that would be a hole in the interposer if xz
# started importing them.
HOLES = {"creat", "creat64", "pread", "pread64", "pwrite", "pwrite64", "readv", "writev", "preadv", "pwritev",
         "preadv2", "pwritev2", "ftruncate", "ftruncate64", "truncate", "truncate64", "rename", "renameat",
         "renameat2", "link", "linkat", "symlink", "symlinkat", "chmod", "fchmodat", "chown", "lchown", "fchownat",
         "utime", "utimes", "futimes", "futimesat", "lutimes", "fstatat", "fstatat64", "statx", "__xstat",
         "__fxstat", "__lxstat", "__xstat64", "__fxstat64", "__lxstat64", "__fxstatat", "select", "pselect", "ppoll",
         "epoll_wait", "fallocate", "fallocate64", "posix_fallocate", "posix_fallocate64", "sendfile", "sendfile64",
         "copy_file_range", "splice", "mmap", "mmap64", "dup", "dup2", "dup3", "sync", "syncfs", "sync_file_range",
         "remove", "rmdir", "mkdir", "mkstemp", "mkostemp", "tmpfile", "freopen", "fdopen", "fwrite", "fread",
         "__open_2", "__open64_2", "__openat_2", "__read_chk", "__pread_chk", "__poll_chk", "close_range",
         "closefrom"}

RULE = ("case = (operation mode, fault plan); for each mode a clean traced run lists the N file-related libc calls xz "
        "makes on the scratch directory/stdin/stdout, then every call index k <= N is perturbed with every applicable "
        "fault kind: hard errno at the k-th call of each kind, EINTR / EAGAIN / short count at the k-th read and write, "
        "a handled signal before the k-th call of any kind, a signal plus EINTR at the k-th read/write, SIGKILL before "
        "the k-th call. evaluations = xz processes run (clean runs, fault runs, re-runs, strace witness runs); "
        "distinct = (mode, fault kind, call kind, k); non-trivial = the interposer log of that run shows the injection "
        "record, i.e. the fault really fired")

G = {}      # worker globals (inherited by fork)


# --------------------------------------------------------------------------
# modes
# --------------------------------------------------------------------------

def _default_signals():
    """Child set-up: xz does not hook signals that it inherits as ignored (e.g. SIGHUP under nohup) and an
    inherited signal mask would delay them, so the verdict would depend on how the check itself was started.
    Every run starts with default dispositions and an empty mask."""
    import signal
    for sg in (signal.SIGINT, signal.SIGTERM, signal.SIGHUP, signal.SIGPIPE, signal.SIGXCPU, signal.SIGXFSZ):
        signal.signal(sg, signal.SIG_DFL)
    signal.pthread_sigmask(signal.SIG_SETMASK, [])


class Mode:
    def __init__(self, name, opts, files, pairs, keep=False, stdout=None, stdin=None, nosync=False, invalid=False,
                 listfile=False, witness=False, mixed=False):
        self.name = name
        self.opts = opts            # xz options (file operands are appended)
        self.files = files          # name -> bytes: initial content of the scratch directory
        self.pairs = pairs          # dicts: src, tgt (None with -c), op ('c'|'d'), plain
        self.keep = keep
        self.stdout = stdout        # None | 'pipe' | 'file' | 'append'
        self.stdin = stdin          # name of the file fed to stdin (then it is the source)
        self.nosync = nosync
        self.invalid = invalid
        self.listfile = listfile
        self.witness = witness      # also used for the strace witness
        self.mixed = mixed          # per-pair validity (pair["invalid"]); clean-run oracle only, no fault plans


def xz_decode_strict(data):
    """Independent decoder (Python's lzma module = released liblzma 5.4):
    every byte must belong to a complete .xz stream."""
    out = []
    if not data:
        raise lzma.LZMAError("empty")
    while data:
        d = lzma.LZMADecompressor(format=lzma.FORMAT_XZ)
        out.append(d.decompress(data))
        if not d.eof:
            raise lzma.LZMAError("truncated")
        data = d.unused_data
    return b"".join(out)


def lzma_alone_decode(data):
    d = lzma.LZMADecompressor(format=lzma.FORMAT_ALONE)
    out = d.decompress(data)
    if not d.eof or d.unused_data:
        raise lzma.LZMAError("truncated or trailing data")
    return out


def clean_env():
    return {"PATH": "/usr/bin:/bin", "LC_ALL": "C", "HOME": "/nonexistent"}


def xz_compress(data, opts):
    r = subprocess.run([G["xz"], "-c"] + opts, input=data, stdout=subprocess.PIPE, stderr=subprocess.PIPE,
                       env=clean_env())
    alone = "--format=lzma" in opts
    if r.returncode != 0 or (lzma_alone_decode(r.stdout) if alone else xz_decode_strict(r.stdout)) != data:
        raise RuntimeError("cannot prepare compressed input: %r" % r.stderr)
    return r.stdout


def make_modes(seed, tier):
    def rng_for(name):
        return random.Random((seed * 1000003) ^ zlib.crc32(name.encode()))

    nbuf = 3 if tier == "quick" else 120

    def small(r):
        words = [b"alpha", b"beta", b"gamma", b"delta", b"xz", b"lzma", b"\n", b" ", b"0123456789"]
        n = r.randrange(200, 700)
        out = bytearray()
        while len(out) < n:
            out += r.choice(words)
            out.append(r.randrange(32, 127))
        return bytes(out[:n])

    def multi(r, bufs=None):
        return r.randbytes((bufs or nbuf) * IOBUF + r.randrange(200, 8000))

    modes = []

    def add(name, opts, build_fn, **kw):
        r = rng_for(name)
        files, pairs = build_fn(r)
        modes.append(Mode(name, opts, files, pairs, **kw))

    def comp(gen, n=1):
        def f(r):
            files, pairs = {}, []
            for i in range(n):
                nm = "f%d.dat" % i if n > 1 else "file.dat"
                p = gen(r)
                files[nm] = p
                pairs.append(dict(src=nm, tgt=nm + ".xz", op="c", plain=p))
            return files, pairs
        return f

    def decomp(gen, copts, mangle=None, n=1, suffix=".xz"):
        def f(r):
            files, pairs = {}, []
            for i in range(n):
                nm = "g%d.dat" % i if n > 1 else "file.dat"
                p = gen(r)
                z = xz_compress(p, copts)
                if mangle:
                    z = mangle(r, z)
                files[nm + suffix] = z
                pairs.append(dict(src=nm + suffix, tgt=nm, op="d", plain=p))
            return files, pairs
        return f

    def lzma_alone(fn):
        def f(r):
            files, pairs = fn(r)
            for p in pairs:
                p["tgt"] = p["src"] + ".lzma"
                p["op"] = "c-lzma"
            return files, pairs
        return f

    def to_stdout(fn):
        def f(r):
            files, pairs = fn(r)
            for p in pairs:
                p["tgt"] = None
            return files, pairs
        return f

    def with_old_target(fn):
        def f(r):
            files, pairs = fn(r)
            for p in pairs:
                files[p["tgt"]] = b"OLD TARGET CONTENT that -f is allowed to replace\n" * 3
            return files, pairs
        return f

    def sparse(r):
        return (r.randbytes(IOBUF) + bytes(3 * IOBUF) + r.randbytes(IOBUF) + bytes(2 * IOBUF))

    def flip_mid(r, z):
        i = len(z) * 6 // 10
        return z[:i] + bytes([z[i] ^ 0x5A]) + z[i + 1:]

    def trunc(r, z):
        return z[:len(z) // 2]

    def trailing(r, z):
        return z + r.randbytes(40)

    def garbage(r):
        return {"file.dat.xz": r.randbytes(300)}, [dict(src="file.dat.xz", tgt="file.dat", op="d", plain=b"\0never")]

    T1 = ["-T1", "-0"]
    add("c_default", [], comp(small))           # plain `xz f`: default preset, default (threaded) mode
    add("c_small", ["-T1"], comp(small), witness=True)
    add("c_multi_T1", T1, comp(multi), witness=True)
    add("c_multi_T4", ["-T4", "-0", "--block-size=8KiB"], comp(multi), witness=True)
    add("d_small", ["-d", "-T1"], decomp(small, ["-T1", "-0"]))
    add("d_multi_T1", ["-d", "-T1"], decomp(multi, ["-T1", "-0"]), witness=True)
    add("d_multi_T4", ["-d", "-T4"], decomp(multi, ["-T4", "-0", "--block-size=8KiB"]))
    add("c_keep", ["-k"] + T1, comp(lambda r: multi(r, 1)), keep=True, witness=True)
    add("d_keep", ["-dk", "-T1"], decomp(small, ["-T1", "-0"]), keep=True)
    add("c_force", ["-f"] + T1, with_old_target(comp(lambda r: multi(r, 1))), witness=True)
    add("c_stdout_pipe", ["-c"] + T1, to_stdout(comp(multi)), stdout="pipe")
    add("c_stdout_file", ["-c"] + T1, to_stdout(comp(multi)), stdout="file")
    add("dc_pipe", ["-dc", "-T1"], to_stdout(decomp(multi, ["-T1", "-0"])), stdout="pipe")
    add("dc_file", ["-dc", "-T1"], to_stdout(decomp(multi, ["-T1", "-0"])), stdout="file")
    add("dc_append", ["-dc", "-T1"], to_stdout(decomp(lambda r: multi(r, 1), ["-T1", "-0"])), stdout="append")
    add("stdin_stdout", ["-c"] + T1, to_stdout(comp(lambda r: multi(r, 1))), stdout="pipe", stdin="file.dat")
    add("d_force", ["-df", "-T1"], with_old_target(decomp(small, ["-T1", "-0"])))
    add("c_lzma", ["--format=lzma", "-0"], lzma_alone(comp(small)))
    add("d_lzma", ["-d", "-T1"], decomp(lambda r: multi(r, 1), ["--format=lzma", "-0"], suffix=".lzma"))
    add("c_two", T1, comp(small, 2), witness=True)
    add("d_two", ["-d", "-T1"], decomp(small, ["-T1", "-0"], n=2))
    add("c_files", T1, comp(small, 2), listfile=True)
    add("c_nosync", ["--no-sync"] + T1, comp(multi), nosync=True, witness=True)
    add("d_sparse", ["-d", "-T1"], decomp(sparse, ["-T1", "-0"]), witness=True)
    add("d_bad_mid", ["-d", "-T1"], decomp(lambda r: multi(r, 3), ["-T1", "-0"], flip_mid), invalid=True)
    add("d_bad_trunc", ["-d", "-T1"], decomp(small, ["-T1", "-0"], trunc), invalid=True)
    add("d_bad_magic", ["-d", "-T1"], garbage, invalid=True)
    # one invocation, several operands of different formats, a later one invalid only through what follows its
    # end: per-file decoder settings (e.g. "trailing data is fine" for .lz) must not leak into the next file
    def mixed_formats(order):
        def f(r):
            import glob as _g
            tf = os.path.join(build.SRC, "tests", "files")
            lz = open(os.path.join(tf, "good-1-v1-trailing-1.lz"), "rb").read()
            lz_plain = b"Hello\nWorld!\n"
            p1 = small(r)
            lzma_ok = xz_compress(p1, ["--format=lzma", "-0"])
            p2 = small(r)
            xz_ok = xz_compress(p2, ["-T1", "-0"])
            items = {
                "lz": ("a.lz", lz, dict(src="a.lz", tgt="a", op="d", plain=lz_plain)),
                "lzma_bad": ("b.lzma", lzma_ok + r.randbytes(24), dict(src="b.lzma", tgt="b", op="d", plain=p1, invalid=True)),
                "xz": ("c.xz", xz_ok, dict(src="c.xz", tgt="c", op="d", plain=p2)),
                "xz_bad": ("d.xz", xz_ok + b"trailing garbage", dict(src="d.xz", tgt="d", op="d", plain=p2, invalid=True)),
            }
            files, pairs = {}, []
            for k in order:
                nm, data, pair = items[k]
                files[nm] = data
                pairs.append(pair)
            return files, pairs
        return f
    add("d_mixed_lz_lzma", ["-d", "-T1"], mixed_formats(["lz", "lzma_bad", "xz"]), mixed=True)
    add("d_mixed_xz_lz_bad", ["-d", "-T1"], mixed_formats(["xz", "lz", "xz_bad", "lzma_bad"]), mixed=True)
    # since 5.7.1alpha --single-stream implies --keep (and --keep implies --no-sync: nothing is removed)
    add("d_single", ["-d", "--single-stream", "-T1"], decomp(small, ["-T1", "-0"], trailing), keep=True)
    return modes


# --------------------------------------------------------------------------
# running xz
# --------------------------------------------------------------------------

APPEND_PREFIX = b"PREVIOUS CONTENT OF THE APPEND-MODE STDOUT FILE\n"
_counter = [0]


def new_rundir():
    _counter[0] += 1
    p = os.path.join(G["scratch"], "r", "%d-%d" % (os.getpid(), _counter[0]))
    os.makedirs(os.path.join(p, "d"))
    return p


def snapshot(d):
    out = {}
    for nm in sorted(os.listdir(d)):
        p = os.path.join(d, nm)
        st = os.lstat(p)
        data = b""
        if os.path.isfile(p) and not os.path.islink(p):
            with open(p, "rb") as f:
                data = f.read()
        out[nm] = dict(ino=st.st_ino, dev=st.st_dev, mode=st.st_mode, size=st.st_size, mtime=st.st_mtime_ns,
                       sha=hashlib.sha256(data).hexdigest(), data=data)
    return out


def xz_argv(mode, rundir):
    d = os.path.join(rundir, "d")
    argv = [G["xz"]] + list(mode.opts)
    if mode.stdin:
        return argv
    srcs = [os.path.join(d, p["src"]) for p in mode.pairs]
    if mode.listfile:
        return argv + ["--files=" + os.path.join(rundir, "list")]
    return argv + srcs


def run_once(mode, plan, rundir=None, strace_inject=None, strace=False):
    """One xz process.  Returns a dict with rc, stderr, stdout, recs (parsed
    interposer log), logtext, before/after snapshots, timeout flag, how."""
    rundir = rundir or new_rundir()
    d = os.path.join(rundir, "d")
    for i, (nm, data) in enumerate(sorted(mode.files.items())):
        p = os.path.join(d, nm)
        with open(p, "wb") as f:
            f.write(data)
        os.chmod(p, 0o640)
        t = 1600000000 * 10**9 + i * 1000003 + 123456789
        os.utime(p, ns=(t, t))
    if mode.listfile:
        with open(os.path.join(rundir, "list"), "w") as f:
            for p in mode.pairs:
                f.write(os.path.join(d, p["src"]) + "\n")
    before = snapshot(d)
    argv = xz_argv(mode, rundir)
    logpath = os.path.join(rundir, "log")
    env = clean_env()
    pass_fds = []
    logfd = -1
    if strace:
        stout = os.path.join(rundir, "strace.out")
        pre = ["strace", "-f", "-y", "-qq", "-o", stout, "-e",
               "trace=open,openat,read,write,lseek,fsync,fdatasync,close,unlink,unlinkat"]
        if strace_inject:
            pre += ["-e", "inject=" + strace_inject]
        argv = pre + argv
    else:
        logfd = os.open(logpath, os.O_WRONLY | os.O_CREAT | os.O_APPEND | os.O_TRUNC, 0o644)
        pass_fds = [logfd]
        env.update({"LD_PRELOAD": G["so"], "XZIO_LOG_FD": str(logfd), "XZIO_DIR": d, "XZIO_PLAN": plan,
                    "XZIO_STD": ("0" if mode.stdin else "") + ("1" if mode.stdout else "")})
    stdin = subprocess.DEVNULL
    fin = fout = None
    if mode.stdin:
        fin = open(os.path.join(d, mode.stdin), "rb")
        stdin = fin
    stdout = subprocess.PIPE
    outpath = os.path.join(rundir, "out")
    if mode.stdout == "file":
        fout = open(outpath, "wb")
        stdout = fout
    elif mode.stdout == "append":
        with open(outpath, "wb") as f:
            f.write(APPEND_PREFIX)
        fout = open(outpath, "ab")
        stdout = fout
    timed_out = False
    try:
        proc = subprocess.Popen(argv, stdin=stdin, stdout=stdout, stderr=subprocess.PIPE, env=env, pass_fds=pass_fds,
                                preexec_fn=_default_signals)
        try:
            so, se = proc.communicate(timeout=WATCHDOG_S)
        except subprocess.TimeoutExpired:
            timed_out = True
            proc.kill()
            so, se = proc.communicate()
        rc = proc.returncode
    finally:
        if logfd >= 0:
            os.close(logfd)
        if fin:
            fin.close()
        if fout:
            fout.close()
    if mode.stdout in ("file", "append"):
        with open(outpath, "rb") as f:
            so = f.read()
    logtext = ""
    if not strace and os.path.exists(logpath):
        with open(logpath, "r", errors="replace") as f:
            logtext = f.read()
    stext = ""
    if strace and os.path.exists(os.path.join(rundir, "strace.out")):
        with open(os.path.join(rundir, "strace.out"), "r", errors="replace") as f:
            stext = f.read()
    after = snapshot(d)
    envshow = {k: v for k, v in env.items() if k.startswith(("XZIO", "LD_PRELOAD"))}
    how = "env %s %s   [stdin=%s stdout=%s; XZIO_LOG_FD is an inherited O_APPEND descriptor]" % (
        " ".join("%s=%s" % kv for kv in sorted(envshow.items())), " ".join(argv),
        mode.stdin or "/dev/null", mode.stdout or "pipe")
    # the run used private copies of the freshly built binaries
    how = how.replace(G["xz"], G.get("xz_show", G["xz"])).replace(G["so"], G.get("so_show", G["so"]))
    res = dict(rc=rc, stderr=se or b"", stdout=so or b"", recs=uo.parse_log(logtext), logtext=logtext, before=before,
               after=after, timeout=timed_out, how=how, rundir=rundir, strace=stext, d=d)
    return res


# --------------------------------------------------------------------------
# oracles
# --------------------------------------------------------------------------

def pair_valid(pair, data):
    if pair["op"] in ("c", "c-lzma"):
        try:
            return (xz_decode_strict(data) if pair["op"] == "c" else lzma_alone_decode(data)) == pair["plain"]
        except (lzma.LZMAError, EOFError, ValueError):
            return False
    return data == pair["plain"]


def classify(pair, before, after):
    sb, sa = before.get(pair["src"]), after.get(pair["src"])
    if sa is None:
        s = "absent"
    elif sb is not None and all(sa[k] == sb[k] for k in ("sha", "ino", "dev", "mode", "mtime", "size")):
        s = "intact"
    else:
        s = "altered"
    if pair["tgt"] is None:
        return s, "none"
    tb, ta = before.get(pair["tgt"]), after.get(pair["tgt"])
    if ta is None:
        t = "absent"
    elif tb is not None and ta["sha"] == tb["sha"] and ta["ino"] == tb["ino"]:
        t = "old"
    elif pair_valid(pair, ta["data"]):
        t = "valid"
    else:
        t = "partial"
    return s, t


def stdout_valid(mode, out):
    if not mode.stdout:
        return out == b""
    if mode.stdout == "append":
        if not out.startswith(APPEND_PREFIX):
            return False
        out = out[len(APPEND_PREFIX):]
    p = mode.pairs[0]
    if p["op"] == "c":
        try:
            return xz_decode_strict(out) == b"".join(q["plain"] for q in mode.pairs)
        except (lzma.LZMAError, EOFError, ValueError):
            return False
    return out == b"".join(q["plain"] for q in mode.pairs)


def describe_rc(rc):
    if rc is None:
        return "?"
    if rc < 0:
        try:
            return "killed by " + signal.Signals(-rc).name
        except ValueError:
            return "killed by signal %d" % -rc
    return "exit %d" % rc


def fired_items(recs, roles):
    """Injection records of a run: dicts(type, errno, signo, kind, role, pair, idx)."""
    out = []
    for i, r in enumerate(recs):
        inj = r.get("inj", "-")
        if inj == "-":
            continue
        pi, role = roles[i]
        it = dict(kind=r.get("kind", "?"), role=role, pair=pi, idx=i, errno=None, signo=None, whence=r["a1"],
                  off=r["a0"])
        if inj.startswith("fail:"):
            it["type"] = "fail"
            it["errno"] = inj[5:]
        elif inj == "short":
            it["type"] = "short"
        elif inj.startswith("signal:"):
            it["type"] = "signal"
            it["signo"] = int(inj[7:])
        elif inj == "kill":
            it["type"] = "kill"
        else:
            it["type"] = inj
        out.append(it)
    return out


def ignored_site(it):
    """Call sites whose failure xz 5.8.1 ignores on purpose although the call
    is in the statement's list; reported with a site-specific key."""
    if it["kind"] == "close" and it["role"] == "S":
        return "ignored-failure|close|source-fd"
    if it["kind"] == "close" and it["role"] == "D":
        return "ignored-failure|close|dir-fd"
    if it["kind"] == "lseek" and it["role"] in ("S", "I"):
        return "ignored-failure|lseek|io_fix_src_pos"
    if it["kind"] == "lseek" and it["role"] == "O" and it["off"] == 0:
        return "ignored-failure|lseek|stdout-sparse-probe"
    return None


def evaluate(mode, pi, run, clean):
    """All oracles for one run.  pi: plan info (kind label etc.), clean: summary
    of the mode's clean run (None when this *is* the clean run).  Returns
    (violations [(key, detail)], info dict)."""
    V = []
    d = run["d"]
    recs = run["recs"]
    rc = run["rc"]
    std_roles = {}
    if mode.stdout:
        std_roles[1] = "O"
    if mode.stdin:
        std_roles[0] = "I"
    tpairs = [(None if mode.stdin else os.path.join(d, p["src"]),
               os.path.join(d, p["tgt"]) if p["tgt"] else None) for p in mode.pairs]
    # --keep implies --no-sync in xz (args.c): the ordering "sync before the
    # source is removed" has no removal to precede
    nosync = mode.nosync or mode.keep
    A = uo.analyse(recs, tpairs, keep=mode.keep, to_stdout=bool(mode.stdout), nosync=nosync,
                   std_roles=std_roles)
    fired = fired_items(recs, A["roles"])
    label = pi["kind"]
    site = None
    for it in fired:
        if it["type"] in ("fail", "short"):
            site = it
            break
    if site is None and fired:
        site = fired[0]
    callname = site["kind"] if site else (pi.get("call") or "-")
    states = [classify(p, run["before"], run["after"]) for p in mode.pairs]
    info = dict(fired=bool(fired), states=states, rc=rc, call=callname, nfired=len(fired),
                roles=A["roles"], badplan=any(r["call"] == "badplan" for r in recs))

    def add(key, detail):
        V.append((key, detail))

    if run["timeout"]:
        info["hang"] = True
        return V, info

    # ---- trace automaton (valid for every run, including killed ones) ----
    for key, detail in A["violations"]:
        add(key, "trace rule violated in mode %s under %s: %s" % (mode.name, pi["plan"], detail))

    killed = any(it["type"] == "kill" for it in fired)
    signals = [it for it in fired if it["type"] == "signal"]
    hard, absorbed = [], []
    for it in fired:
        if it["type"] == "short":
            absorbed.append(it)
        elif it["type"] == "fail":
            if it["errno"] in ("EINTR", "EAGAIN") and it["kind"] in ABSORBING:
                absorbed.append(it)
            else:
                hard.append(it)
    hard_listed = [it for it in hard if it["kind"] in LISTED]
    # xz cannot remove (or refuses to remove) the incomplete target when the
    # removal step itself was made to fail: unlink / lstat / stat on the target
    # name, or the fstat that records the target's identity.
    sabotaged = any(it["type"] == "fail" and ((it["kind"] in ("unlink", "lstat", "stat") and it["role"] in ("T", "t"))
                                              or (it["kind"] == "fstat" and it["role"] == "T")) for it in fired)
    info["sabotaged"] = sabotaged

    # ---- universal state invariant: never lose data -----------------------
    after_names = set(run["after"])
    allowed = set(mode.files) | {p["tgt"] for p in mode.pairs if p["tgt"]}
    for nm in sorted(after_names - allowed):
        add("unexpected-file|%s" % mode.name, "file %r appeared in the directory (plan %s)" % (nm, pi["plan"]))
    for i, (s, t) in enumerate(states):
        if not (s == "intact" or t == "valid"):
            add("source-lost|%s|%s|%s" % (mode.name, label, callname),
                "pair %d (%s): after the process ended (%s) the source is %s and the target is %s - neither the "
                "intact source nor a complete valid target exists (plan %s)"
                % (i, mode.pairs[i]["src"], describe_rc(rc), s, t, pi["plan"]))

    # ---- dual trace rule (not after SIGKILL) ----------------------------------
    if not killed:
        for i, p in enumerate(mode.pairs):
            if not p["tgt"]:
                continue
            ta = run["after"].get(p["tgt"])
            tr = A["traces"][i]
            if ta is None:
                tstate = "absent"
            elif tr.t_id is not None and ta["ino"] == tr.t_id[1]:
                tstate = "created-present"
            else:
                tstate = "other"
            if sabotaged:
                continue
            dv, notes = uo.dual_rule(A, i, tstate, nosync=nosync)
            for key, detail in dv:
                add(key, "mode %s plan %s pair %d: %s" % (mode.name, pi["plan"], i, detail))
            if notes:
                info["trace_incomplete"] = notes

    if killed:
        # "killed outright at any instant": only the disjunction above.
        return V, info

    # ---- an incomplete target must not be left behind ---------------------------
    for i, (s, t) in enumerate(states):
        if t == "partial":
            if sabotaged:
                info["partial_tolerated"] = True
            else:
                add("partial-target-left|%s|%s|%s" % (mode.name, label, callname),
                    "pair %d: %s exists after the run (%s) but is not a complete valid target (plan %s)"
                    % (i, mode.pairs[i]["tgt"], describe_rc(rc), pi["plan"]))

    stderr_empty = not run["stderr"].strip()

    # ---- handled signal ------------------------------------------------------------
    if signals:
        if rc == 0:
            add("exit-zero-after-signal|%s" % SIGNAMES.get(signals[0]["signo"], signals[0]["signo"]),
                "mode %s: signal delivered before call #%d but xz exited 0 (plan %s)"
                % (mode.name, recs[signals[0]["idx"]]["n"], pi["plan"]))

    # ---- read / write / seek / sync / close failed ------------------------------------
    for it in hard_listed:
        sitekey = ignored_site(it)
        what = "%s on %s failed with %s" % (it["kind"], {"S": "the source", "T": "the target", "D": "the directory",
                                                         "O": "stdout", "I": "stdin"}.get(it["role"], it["role"]),
                                             it["errno"])
        if rc == 0:
            if sitekey:
                add(sitekey, "mode %s: %s (record %s) and xz exited 0; the statement requires a non-zero exit status "
                    "whenever a read, write, seek, sync or close fails (plan %s; final state %r)"
                    % (mode.name, what, recs[it["idx"]]["line"], pi["plan"], states))
            else:
                add("exit-zero-after-fault|%s|%s" % (it["kind"], it["errno"]),
                    "mode %s: %s but xz exited 0 (plan %s; final state %r)" % (mode.name, what, pi["plan"], states))
        elif rc > 0 and stderr_empty:
            add("no-diagnostic|%s|%s" % (it["kind"], it["errno"]),
                "mode %s: %s, exit status %d, but nothing was written to stderr (plan %s)"
                % (mode.name, what, rc, pi["plan"]))
        if sitekey:
            continue            # ignored on purpose: only the exit-status rule applies, under the site's own key
        if 0 <= it["pair"] < len(states):
            s, t = states[it["pair"]]
            if t == "valid":
                add("replaced-despite-failure|%s|%s|%s" % (mode.name, label, it["kind"]),
                    "mode %s: %s, yet the target was kept (source %s, target %s, %s); the statement requires the "
                    "target to be removed and the source left untouched (plan %s)"
                    % (mode.name, what, s, t, describe_rc(rc), pi["plan"]))
            # t == partial and a lost source are reported by the rules above

    # ---- only absorbed faults (or none): same result as the clean run ------------------
    if not hard and not signals:
        exp = clean if clean is not None else None
        if exp is None:
            # the clean run itself: the reference behaviour of the mode
            ok_out = stdout_valid(mode, run["stdout"])
            if mode.mixed:
                # several operands in one invocation, some valid and some invalid: every file is judged on its own
                # (no state may be carried from one file to the next)
                if rc == 0:
                    add("exit-zero-on-invalid-input|%s" % mode.name, "an invalid operand was accepted: exit status 0")
                for i, (s_, t_) in enumerate(states):
                    bad = mode.pairs[i].get("invalid")
                    want = ("intact", "absent") if bad else ("absent", "valid")
                    if (s_, t_) != want:
                        add("invalid-input-state|%s" % mode.name,
                            "operand %d (%s, %s): source %s, target %s after %s; wanted %r" % (
                                i, mode.pairs[i]["src"], "invalid" if bad else "valid", s_, t_, describe_rc(rc), want))
            elif mode.invalid:
                if rc == 0:
                    add("exit-zero-on-invalid-input|%s" % mode.name, "invalid input accepted with exit status 0")
                elif rc > 0 and stderr_empty:
                    add("no-diagnostic|invalid-input|%s" % mode.name, "invalid input: exit %d but empty stderr" % rc)
                for i, (s, t) in enumerate(states):
                    if s != "intact" or t not in ("absent", "old", "none"):
                        add("invalid-input-state|%s" % mode.name,
                            "invalid input: source %s, target %s after %s" % (s, t, describe_rc(rc)))
            else:
                want_s = "intact" if (mode.keep or mode.stdout) else "absent"
                want_t = "none" if mode.stdout else "valid"
                if rc != 0 or any(st != (want_s, want_t) for st in states) or not ok_out:
                    add("clean-run-wrong|%s" % mode.name,
                        "unfaulted run: %s, states %r (wanted %r), stdout valid=%s, stderr %r"
                        % (describe_rc(rc), states, (want_s, want_t), ok_out, run["stderr"][:200]))
            info["stdout_ok"] = ok_out
        else:
            kindname = absorbed[0]["type"] if absorbed and absorbed[0]["type"] == "short" else \
                (absorbed[0]["errno"] if absorbed else "none")
            ok_out = stdout_valid(mode, run["stdout"])
            if rc != exp["rc"] or states != exp["states"] or ok_out != exp["stdout_ok"]:
                add("absorbed-fault-changed-result|%s" % kindname,
                    "mode %s plan %s: %s, states %r, stdout valid=%s; the clean run gave %s, states %r, stdout "
                    "valid=%s; stderr %r" % (mode.name, pi["plan"], describe_rc(rc), states, ok_out,
                                             describe_rc(exp["rc"]), exp["states"], exp["stdout_ok"],
                                             run["stderr"][:200]))
    elif hard and not signals and rc < 0:
        add("died-by-signal-after-fault|%s|%s" % (hard[0]["kind"], hard[0]["errno"]),
            "mode %s plan %s: %s without any signal having been sent" % (mode.name, pi["plan"], describe_rc(rc)))
    return V, info


def trace_excerpt(run, n=14):
    recs = run["recs"]
    idx = [i for i, r in enumerate(recs) if r.get("inj", "-") != "-"]
    lo = max(0, (idx[0] if idx else len(recs)) - 6)
    return [r["line"] for r in recs[lo:lo + n]] + (["..."] if lo + n < len(recs) else [])


# --------------------------------------------------------------------------
# plans
# --------------------------------------------------------------------------

def plans_for(mode, recs, tier, rng):
    real = [r for r in recs if not uo.is_pseudo(r)]
    n_all = len(real)
    by_kind = collections.OrderedDict()
    for r in real:
        by_kind.setdefault(r["kind"], []).append(r)
    plans = []

    def P(plan, kind, call, k):
        plans.append(dict(mode=mode.name, plan=plan, kind=kind, call=call, k=k))

    for call, lst in by_kind.items():
        for k in range(1, len(lst) + 1):
            for e in ERRNOS[tier]:
                P("fail:%s:%d:%s" % (call, k, e), "err-" + e, call, k)
            if tier == "thorough" and call not in ABSORBING:
                for e in ("EINTR", "EAGAIN"):
                    P("fail:%s:%d:%s" % (call, k, e), "err-" + e, call, k)
    for call in ("read", "write"):
        lst = by_kind.get(call, [])
        for k in range(1, len(lst) + 1):
            P("eintr:%s:%d" % (call, k), "eintr", call, k)
            P("eagain:%s:%d" % (call, k), "eagain", call, k)
            if lst[k - 1]["a0"] >= 2:
                P("short:%s:%d" % (call, k), "short", call, k)
            P("sigeintr:%s:%d:%d" % (call, k, signal.SIGINT), "sigeintr-INT", call, k)
            if tier == "thorough":
                P("sigeintr:%s:%d:%d" % (call, k, signal.SIGTERM), "sigeintr-TERM", call, k)
    for k in range(1, n_all + 1):
        for s in SIGS[tier]:
            P("signal:%d:%d" % (k, s), "sig-" + SIGNAMES[s], real[k - 1]["kind"], k)
        P("kill:%d" % k, "kill", real[k - 1]["kind"], k)
    single = len(plans)
    if tier == "thorough":
        # two-fault plans (sampled, bounded by count): the second fault hits the
        # error path or the retry of the first
        rw = [(c, k) for c in ("read", "write") for k in range(1, len(by_kind.get(c, [])) + 1)]
        cand = []
        for c, k in rw:
            cand.append(("eagain:%s:%d,eintr:poll:1" % (c, k), "two-eagain+poll-eintr", c, k))
            cand.append(("eagain:%s:%d,fail:poll:1:EIO" % (c, k), "two-eagain+poll-EIO", c, k))
            cand.append(("short:%s:%d,fail:%s:%d:EIO" % (c, k, c, k + 1), "two-short+retry-EIO", c, k))
            cand.append(("eintr:%s:%d,short:%s:%d" % (c, k, c, k + 1), "two-eintr+short", c, k))
            cand.append(("fail:%s:%d:EIO,fail:unlink:1:EIO" % (c, k), "two-EIO+unlink-EIO", c, k))
            cand.append(("fail:%s:%d:ENOSPC,fail:close:1:EIO" % (c, k), "two-ENOSPC+close-EIO", c, k))
            j = rng.randrange(1, n_all + 1)
            cand.append(("short:%s:%d,kill:%d" % (c, k, j), "two-short+kill", c, k))
            cand.append(("eintr:%s:%d,signal:%d:%d" % (c, k, j, signal.SIGTERM), "two-eintr+sig-TERM", c, k))
        rng.shuffle(cand)
        for plan, kind, c, k in cand[:1200]:
            P(plan, kind, c, k)
    return plans, single


# --------------------------------------------------------------------------
# worker
# --------------------------------------------------------------------------

def _summary(mode, pi, run, info):
    return "%s | %s | fired=%s | %s | states=%s | stderr=%r" % (
        mode.name, pi["plan"], info.get("fired"), describe_rc(run["rc"]),
        ",".join("%s/%s" % st for st in info.get("states", [])), run["stderr"][:90].decode("utf-8", "replace"))


def run_case(pi, clean, keep_dir=False):
    mode = G["modes"][pi["mode"]]
    runs = 0
    run = run_once(mode, pi["plan"])
    runs += 1
    V, info = evaluate(mode, pi, run, clean)
    hang = None
    if info.get("hang"):
        shutil.rmtree(run["rundir"], ignore_errors=True)
        run2 = run_once(mode, pi["plan"])
        runs += 1
        V, info = evaluate(mode, pi, run2, clean)
        if info.get("hang"):
            hang = "repeated"
            V = [("hang|%s|%s" % (mode.name, pi["kind"]),
                  "xz did not terminate within %d s, twice (plan %s)" % (WATCHDOG_S, pi["plan"]))]
        else:
            hang = "once"
        run = run2
    out = dict(mode=mode.name, plan=pi["plan"], kind=pi["kind"], call=pi.get("call"), k=pi.get("k"), runs=runs,
               fired=bool(info.get("fired")), rc=run["rc"], hang=hang, summary=_summary(mode, pi, run, info),
               trace_incomplete=bool(info.get("trace_incomplete")), badplan=bool(info.get("badplan")),
               partial_tolerated=bool(info.get("partial_tolerated")), viols=[])
    for key, detail in V:
        replay = {
            "argv": [os.path.join(build.VERIF, "check"), "C17", "--tier", G["tier"], "--seed", str(G["seed"])],
            "env": {"VERIF_ONLY_CASE": "%s:%s" % (mode.name, pi["plan"])},
            "how": "cd %s && VERIF_ONLY_CASE='%s:%s' ./check C17 --tier %s --seed %d   # recreates the scratch "
                   "files from the seed and runs: %s" % (build.VERIF, mode.name, pi["plan"], G["tier"], G["seed"],
                                                         run["how"]),
            "expected": "statement of C17 (see detail)",
            "observed": "%s; states (source/target per pair) %r; stderr %r" % (
                describe_rc(run["rc"]), info.get("states"), run["stderr"][:300].decode("utf-8", "replace")),
            "trace": trace_excerpt(run),
        }
        out["viols"].append((key, detail, replay))
    if keep_dir:
        out["run"] = run
        out["info"] = info
    else:
        shutil.rmtree(run["rundir"], ignore_errors=True)
    return out


def _clean_task(name):
    mode = G["modes"][name]
    pi = dict(mode=name, plan="none", kind="clean", call=None, k=0)
    run = run_once(mode, "none")
    V, info = evaluate(mode, pi, run, None)
    shutil.rmtree(run["rundir"], ignore_errors=True)
    lines = [r["line"] for r in run["recs"]]
    return dict(mode=name, viols=[(k, d, {"how": run["how"], "trace": lines[:60]}) for k, d in V],
                rc=run["rc"], states=info["states"], stdout_ok=info.get("stdout_ok", False), logtext=run["logtext"],
                how=run["how"], summary=_summary(mode, pi, run, info), hang=info.get("hang", False),
                roles=info.get("roles", []))


def _fault_task(args):
    pi, clean = args
    try:
        return run_case(pi, clean)
    except Exception as e:      # a harness problem must not masquerade as "held"
        import traceback
        return dict(mode=pi["mode"], plan=pi["plan"], kind=pi["kind"], call=pi.get("call"), k=pi.get("k"), runs=0,
                    fired=False, rc=None, hang=None, summary="harness exception", viols=[], trace_incomplete=False,
                    badplan=False, partial_tolerated=False, exception=traceback.format_exc()[-600:])


# --------------------------------------------------------------------------
# strace witness
# --------------------------------------------------------------------------

ST_RE = re.compile(r"^(\d+)\s+(\w+)\((.*)$")
ST_RESUMED = re.compile(r"^(\d+)\s+<\.\.\. (\w+) resumed>(.*)$")
FDPATH = re.compile(r"^(-?\d+)<([^>]*)>")


def parse_strace(text):
    """-> list of dict(pid, sc, path, ret, injected, entry(bool: counts as an
    invocation for inject=when), line)"""
    out = []
    pending = {}
    for line in text.splitlines():
        m = ST_RESUMED.match(line)
        if m:
            pid, sc, rest = int(m.group(1)), m.group(2), m.group(3)
            e = pending.pop((pid, sc), None)
            if e is not None:
                e["line"] += " " + line
                mm = re.search(r"=\s+(-?\d+)", rest)
                e["ret"] = int(mm.group(1)) if mm else None
                e["injected"] = "(INJECTED)" in rest
            continue
        m = ST_RE.match(line)
        if not m:
            continue
        pid, sc, rest = int(m.group(1)), m.group(2), m.group(3)
        e = dict(pid=pid, sc=sc, path=None, ret=None, injected="(INJECTED)" in rest, line=line)
        if sc in ("openat", "open", "unlink", "unlinkat"):
            mm = re.search(r'"((?:[^"\\]|\\.)*)"', rest)
            if mm:
                e["path"] = mm.group(1)
        else:
            mm = FDPATH.match(rest)
            if mm:
                e["path"] = mm.group(2)
        if e["path"] and e["path"].endswith(" (deleted)"):
            e["path"] = e["path"][:-10]
        if "<unfinished" in rest:
            pending[(pid, sc)] = e
        else:
            mm = re.search(r"\)\s+=\s+(-?\d+)", rest)
            e["ret"] = int(mm.group(1)) if mm else None
        out.append(e)
    return out


SC_OF_KIND = {"read": ("read",), "write": ("write",), "lseek": ("lseek",), "fsync": ("fsync", "fdatasync"),
              "close": ("close",), "open": ("openat", "open"), "unlink": ("unlink", "unlinkat")}


def interposer_counts(mode, recs, roles, d):
    """(path, kind) -> count from the interposer log, for calls on the source,
    target and directory."""
    c = collections.Counter()
    for r, (pi, role) in zip(recs, roles):
        if uo.is_pseudo(r) or r["kind"] not in SC_OF_KIND:
            continue
        if r["kind"] in ("open", "unlink"):
            c[(r["path"], r["kind"])] += 1
            continue
        if pi < 0:
            continue
        p = mode.pairs[pi]
        path = {"S": os.path.join(d, p["src"]), "T": os.path.join(d, p["tgt"]) if p["tgt"] else None,
                "D": d}.get(role)
        if path:
            c[(path, r["kind"])] += 1
    return c


def strace_counts(entries, d):
    c = collections.Counter()
    for e in entries:
        if not e["path"] or not (e["path"] == d or e["path"].startswith(d + "/")):
            continue
        for kind, scs in SC_OF_KIND.items():
            if e["sc"] in scs:
                c[(e["path"], kind)] += 1
    return c


def _witness_clean(name):
    mode = G["modes"][name]
    a = run_once(mode, "none")
    pi = dict(mode=name, plan="none", kind="clean", call=None, k=0)
    _, info = evaluate(mode, pi, a, None)
    ic = interposer_counts(mode, a["recs"], info["roles"], a["d"])
    ic = {(os.path.relpath(p, a["d"]), k): v for (p, k), v in ic.items()}
    b = run_once(mode, "none", strace=True)
    ents = parse_strace(b["strace"])
    sc = strace_counts(ents, b["d"])
    sc = {(os.path.relpath(p, b["d"]), k): v for (p, k), v in sc.items()}
    states = [classify(p, b["before"], b["after"]) for p in mode.pairs]
    shutil.rmtree(a["rundir"], ignore_errors=True)
    shutil.rmtree(b["rundir"], ignore_errors=True)
    mainpid = ents[0]["pid"] if ents else None
    # candidate injection points: (syscall, when, kind, role, relative path)
    cands = []
    per_sc = collections.Counter()
    rolemap = {}
    for i, p in enumerate(mode.pairs):
        rolemap[os.path.join(b["d"], p["src"])] = ("S", i)
        if p["tgt"]:
            rolemap[os.path.join(b["d"], p["tgt"])] = ("T", i)
    rolemap[b["d"]] = ("D", -1)
    for e in ents:
        if e["pid"] != mainpid:
            continue
        per_sc[e["sc"]] += 1
        if e["path"] in rolemap and e["sc"] in ("read", "write", "fsync", "close", "unlink", "openat", "lseek"):
            role, pidx = rolemap[e["path"]]
            cands.append(dict(sc=e["sc"], when=per_sc[e["sc"]], role=role, pair=pidx,
                              rel=os.path.relpath(e["path"], b["d"])))
    return dict(mode=name, icounts=ic, scounts=sc, rc=b["rc"], states=states, cands=cands, ok=(ic == sc),
                strace_rc=b["rc"], nlines=len(ents))


def _witness_inject(args):
    name, cand, err = args
    mode = G["modes"][name]
    run = run_once(mode, "none", strace=True, strace_inject="%s:error=%s:when=%d" % (cand["sc"], err, cand["when"]))
    ents = parse_strace(run["strace"])
    inj = [e for e in ents if e["injected"]]
    states = [classify(p, run["before"], run["after"]) for p in mode.pairs]
    rc = run["rc"]
    V = []
    fired = bool(inj)
    on_expected = fired and inj[0]["path"] is not None and os.path.relpath(inj[0]["path"], run["d"]) == cand["rel"]
    kind = {"openat": "open"}.get(cand["sc"], cand["sc"])
    plan = "strace inject=%s:error=%s:when=%d (%s of %s)" % (cand["sc"], err, cand["when"], cand["sc"], cand["rel"])
    if fired and on_expected and not run["timeout"]:
        for i, (s, t) in enumerate(states):
            if not (s == "intact" or t == "valid"):
                V.append(("source-lost|%s|strace-err-%s|%s" % (name, err, kind),
                          "strace witness: pair %d source %s target %s after %s (%s)" % (i, s, t, describe_rc(rc),
                                                                                         plan)))
            if t == "partial" and not (kind == "unlink" and cand["role"] == "T"):
                V.append(("partial-target-left|%s|strace-err-%s|%s" % (name, err, kind),
                          "strace witness: pair %d incomplete target left after %s (%s)" % (i, describe_rc(rc), plan)))
        if kind in LISTED:
            it = dict(kind=kind, role=cand["role"], off=0)
            sitekey = ignored_site(it)
            if rc == 0:
                V.append((sitekey or "exit-zero-after-fault|%s|%s" % (kind, err),
                          "strace witness, mode %s: %s failed with %s (injected by strace, no preload) and xz exited 0 "
                          "(final state %r)" % (name, plan, err, states)))
            elif not sitekey and 0 <= cand["pair"] < len(states):
                s, t = states[cand["pair"]]
                if t == "valid":
                    V.append(("replaced-despite-failure|%s|strace-err-%s|%s" % (name, err, kind),
                              "strace witness: %s, target kept (source %s) after %s" % (plan, s, describe_rc(rc))))
    lines = [e["line"] for e in ents if e["path"] and e["path"].startswith(run["d"])][-25:]
    shutil.rmtree(run["rundir"], ignore_errors=True)
    return dict(mode=name, plan=plan, fired=fired, on_expected=on_expected, rc=rc, states=states,
                viols=[(k, dt, {"how": run["how"], "trace": lines}) for k, dt in V])


# --------------------------------------------------------------------------
# check entry points
# --------------------------------------------------------------------------

def prepare(tier):
    d = build.build_flavour("rel")
    so = build.build_shared("libxzio.so", ["preload/libxzio.c"])
    return os.path.join(d, "xz"), so


def imported_symbols(xz):
    r = subprocess.run(["nm", "-D", "--undefined-only", xz], stdout=subprocess.PIPE, stderr=subprocess.DEVNULL,
                       text=True)
    return {ln.split()[-1].split("@")[0] for ln in r.stdout.splitlines() if ln.strip()}


def run(ctx):
    xz_built, so_built = prepare(ctx.tier)
    # Private copies: another check rebuilding the shared `rel` flavour while
    # this one runs must not swap the binary under test (or make it vanish)
    # in the middle of the enumeration.
    os.makedirs(os.path.join(ctx.scratch, "bin"), exist_ok=True)
    os.makedirs(os.path.join(ctx.scratch, "r"), exist_ok=True)
    xz = shutil.copy2(xz_built, os.path.join(ctx.scratch, "bin", "xz"))
    so = shutil.copy2(so_built, os.path.join(ctx.scratch, "bin", "libxzio.so"))
    G.update(xz=xz, so=so, xz_show=xz_built, so_show=so_built, scratch=ctx.scratch, seed=ctx.seed, tier=ctx.tier)
    ctx.rule = RULE
    ctx.assumptions = [
        "xz is the `rel` flavour (-O2 -DNDEBUG, Landlock sandbox active) dynamically linked to glibc; every file-related "
        "libc function it imports is wrapped by preload/libxzio.c (checked with nm -D on every run; stdio is used by xz "
        "only for messages and for reading the --files list and is not interposed)",
        "the interposer sees what the kernel sees: validated on every run against strace (per-path syscall counts of "
        "clean runs must agree, and a sample of hard-error plans is repeated with strace -e inject, no preload)",
        "'complete valid target' is decided by Python's lzma module (released liblzma 5.4, strict: no trailing bytes) "
        "or by comparison with the known plaintext; durability itself is unobservable (page cache survives process "
        "death) and is checked as the order of successful fsync calls before unlink(source)",
        "faults are injected at the libc boundary: an injected error means the kernel call was not made (close: made, "
        "then reported as failed); signals are raised by the calling thread on itself immediately before the call",
        "an incomplete target that stays behind because the removal step itself was made to fail (unlink/lstat of the "
        "target, or the fstat recording its identity) is not counted against xz; such cases are counted in "
        "partial_left_because_removal_failed",
        "the trace rule 'a failed or short write was retried to completion' recognises a retry as a following write "
        "call for exactly the remaining byte count",
    ]
    imports = imported_symbols(xz)
    holes = sorted(imports & HOLES)
    ctx.extra_cov["xz_imported_io_functions"] = sorted(imports & COVERED)
    if holes:
        ctx.inconclusive.append("xz imports file-related libc functions the interposer does not wrap: %s" % holes)
    modes = make_modes(ctx.seed, ctx.tier)
    G["modes"] = {m.name: m for m in modes}
    only = os.environ.get("VERIF_ONLY_CASE")
    if only:
        return only_case(ctx, only)

    nviol = [0]

    def report(key, detail, replay):
        if key not in ctx._viol_seen and nviol[0] >= MAX_VIOLATION_KEYS and ctx.match_finding(key) is None:
            ctx.count("violation_keys_beyond_cap")
            return
        if key not in ctx._viol_seen:
            nviol[0] += 1
        ctx.violation(key, detail, replay)

    mpctx = multiprocessing.get_context("fork")
    nworkers = min(16, build.NPROC)
    with concurrent.futures.ProcessPoolExecutor(max_workers=nworkers, mp_context=mpctx) as pool:
        # ---- clean traced runs ------------------------------------------------
        cleans = {c["mode"]: c for c in pool.map(_clean_task, [m.name for m in modes])}
        rng = random.Random(ctx.seed ^ 0xC17)
        tasks = []
        planned = collections.Counter()
        per_mode = {}
        all_singles_planned = True
        for m in modes:
            c = cleans[m.name]
            ctx.evaluations += 1
            ctx.count("clean_runs")
            for key, detail, replay in c["viols"]:
                report(key, detail, replay)
            if c["hang"]:
                ctx.inconclusive.append("clean run of mode %s hit the watchdog" % m.name)
                all_singles_planned = False
                continue
            recs = uo.parse_log(c["logtext"])
            plans, single = ([], 0) if m.mixed else plans_for(m, recs, ctx.tier, rng)
            n_calls = len([r for r in recs if not uo.is_pseudo(r)])
            per_mode[m.name] = dict(calls=n_calls, plans=len(plans), single_fault_plans=single,
                                    by_kind=dict(collections.Counter(r["kind"] for r in recs)))
            csum = dict(rc=c["rc"], states=c["states"], stdout_ok=c["stdout_ok"])
            for pi in plans:
                tasks.append((pi, csum))
                planned[(m.name, pi["kind"])] += 1
        ctx.count("planned_fault_runs", len(tasks))
        rng.shuffle(tasks)      # spread the heavy modes over the workers

        # ---- fault enumeration ----------------------------------------------------
        fired = collections.Counter()
        nfired = 0
        samples = collections.OrderedDict()
        hangs_once = 0
        completed = 0
        for res in pool.map(_fault_task, tasks, chunksize=8):
            ctx.evaluations += res["runs"]
            completed += 1 if res["runs"] else 0
            if res.get("exception"):
                ctx.inconclusive.append("harness exception in %s:%s: %s" % (res["mode"], res["plan"],
                                                                            res["exception"][-300:]))
                continue
            if res["badplan"]:
                ctx.inconclusive.append("interposer rejected plan %s" % res["plan"])
            if res["hang"] == "once":
                hangs_once += 1
            if res["trace_incomplete"]:
                ctx.count("trace_incomplete")
            if res["partial_tolerated"]:
                ctx.count("partial_left_because_removal_failed")
            ctx.count("runs_" + res["kind"].split("-")[0])
            if res["fired"]:
                nfired += 1
                fired[(res["mode"], res["kind"])] += 1
                hk = ("%s|%s|%s|%s|%s" % (res["mode"], res["kind"], res["call"], res["k"], res["plan"])).encode()
                ctx.add_hash(zlib.crc32(hk) | (zlib.adler32(hk) << 32))
                if res["rc"] is not None:
                    ctx.count("outcome_exit_nonzero" if res["rc"] > 0 else
                              ("outcome_exit_zero" if res["rc"] == 0 else "outcome_died_by_signal"))
            for key, detail, replay in res["viols"]:
                report(key, detail, replay)
            sk = res["kind"].split("-")[0]
            if sk not in samples and res["fired"]:
                samples[sk] = res["summary"]
        if hangs_once:
            ctx.count("watchdog_fired_once", hangs_once)
            ctx.inconclusive.append("%d run(s) hit the %d s watchdog once and terminated on re-run" % (hangs_once,
                                                                                                      WATCHDOG_S))
        if ctx.counters.get("trace_incomplete"):
            ctx.inconclusive.append("interposer log incomplete: a target created by xz disappeared without a logged "
                                    "unlink in %d run(s)" % ctx.counters["trace_incomplete"])

        # ---- independent witness: strace --------------------------------------------
        wit_modes = [m.name for m in modes if m.witness]
        wrng = random.Random(ctx.seed ^ 0x57ACE)
        wclean = list(pool.map(_witness_clean, wit_modes))
        cmp_rows = {}
        wtasks = []
        for w in wclean:
            ctx.evaluations += 2
            cmp_rows[w["mode"]] = dict(
                agree=w["ok"], strace_rc=w["strace_rc"],
                interposer={"%s %s" % k: v for k, v in sorted(w["icounts"].items())},
                strace={"%s %s" % k: v for k, v in sorted(w["scounts"].items())})
            if not w["ok"]:
                ctx.inconclusive.append("interposer and strace disagree on the calls of mode %s: %r vs %r"
                                        % (w["mode"], sorted(w["icounts"].items()), sorted(w["scounts"].items())))
        allc = [(w["mode"], c) for w in wclean for c in w["cands"]]
        wrng.shuffle(allc)
        want = 24 if ctx.tier == "quick" else 240
        seen_sc = collections.Counter()
        for name, c in allc:
            if len(wtasks) >= want:
                break
            if seen_sc[c["sc"]] >= want // 5 + 1:
                continue
            seen_sc[c["sc"]] += 1
            wtasks.append((name, c, wrng.choice(["EIO", "ENOSPC", "EDQUOT"])))
        wfired = 0
        wsamples = []
        for res in pool.map(_witness_inject, wtasks):
            ctx.evaluations += 1
            if res["fired"] and res["on_expected"]:
                wfired += 1
            for key, detail, replay in res["viols"]:
                report(key, detail, replay)
            if len(wsamples) < 4:
                wsamples.append("%s | %s | injected=%s | %s | states=%s" % (
                    res["mode"], res["plan"], res["fired"], describe_rc(res["rc"]),
                    ",".join("%s/%s" % st for st in res["states"])))
        ctx.extra_cov["strace_witness"] = dict(
            clean_count_comparison=cmp_rows, modes_compared=len(wclean),
            modes_agreeing=sum(1 for w in wclean if w["ok"]), injected_plans=len(wtasks),
            injected_plans_fired_on_intended_call=wfired, samples=wsamples)
        ctx.count("strace_runs", 2 * len(wclean) + len(wtasks))
        ctx.require("strace_injections_fired", wfired, max(1, (len(wtasks) * 9) // 10))
        ctx.require("strace_clean_comparisons", len(wclean), 5)

    # ---- one unfaulted decompression whose zero run is longer than 4 GiB (sparse path): the target must be complete
    # before the source goes (the file is far too big for the snapshot oracle above; it is verified by size, head, tail
    # and the extents the file system reports)
    if os.environ.get("VERIF_ONLY_CASE") in (None, ""):
        try:
            import importlib
            c18 = importlib.import_module("checks.c18")
            if c18.sparse_probe(ctx)[0]:      # (on a file system without holes this would write 4 GiB for real)
                c18.huge_sparse(ctx, None, xz=xz_built, B=IOBUF, key="source-lost|d_sparse_huge|clean|%s")
        except Exception as ex:       # harness trouble, not a verdict
            ctx.inconclusive.append("huge-sparse case: %r" % (ex,))

    # ---- evidence ---------------------------------------------------------------------
    total = len(tasks)
    ctx.count("fault_runs_fired", nfired)
    ctx.require("fault_fired_permille", (1000 * nfired) // max(1, total), 950)
    cells = len(planned)
    cells_fired = sum(1 for k in planned if fired.get(k))
    ctx.require("mode_x_faultkind_cells_with_fired_case", cells_fired, cells)
    ctx.extra_cov["modes"] = per_mode
    ctx.extra_cov["fault_kinds"] = sorted({k for _, k in planned})
    ctx.extra_cov["mode_x_faultkind_cells"] = cells
    ctx.extra_cov["relevant_calls_total"] = sum(v["calls"] for v in per_mode.values())
    ctx.exhaustive = bool(all_singles_planned and completed == total and not holes)
    first = modes[1].name
    ctx.samples.append("clean trace of %s (%s): %s" % (
        first, cleans[first]["how"].split("   [")[0].split(" ", 1)[1][-120:],
        " ; ".join("%s(%s)=%s" % (r["call"], ("fd%d" % r["fd"]) if r["fd"] >= 0 else os.path.basename(r["path"] or ""),
                                  r["res"]) for r in uo.parse_log(cleans[first]["logtext"]))))
    for s in samples.values():
        if len(ctx.samples) < 12:
            ctx.samples.append(s)


def only_case(ctx, only):
    """VERIF_ONLY_CASE=<mode>:<plan>: run the mode's clean run and that one
    plan, print everything, exit 1 when a violation is observed.  The evidence
    file is left alone (this is a replay, not a check run)."""
    name, _, plan = only.partition(":")
    code = 0
    try:
        if name not in G["modes"]:
            print("unknown mode %r; modes: %s" % (name, " ".join(G["modes"])))
            code = 2
        else:
            c = _clean_task(name)
            print("clean run: %s" % c["summary"])
            print("  " + c["how"])
            csum = dict(rc=c["rc"], states=c["states"], stdout_ok=c["stdout_ok"])
            kind = "replay"
            f = plan.split(":")
            if f[0] == "fail" and len(f) == 4:
                kind = "err-" + f[3]
            elif f[0] in ("eintr", "eagain", "short", "kill"):
                kind = f[0]
            elif f[0] == "signal" and len(f) == 3:
                kind = "sig-" + SIGNAMES.get(int(f[2]), f[2])
            elif f[0] == "sigeintr" and len(f) == 4:
                kind = "sigeintr-" + SIGNAMES.get(int(f[3]), f[3])
            if "," in plan:
                kind = "two-fault"
            pi = dict(mode=name, plan=plan or "none", kind=kind, call=f[1] if len(f) > 2 else None, k=0)
            res = run_case(pi, csum, keep_dir=True)
            run = res["run"]
            print("case: %s" % res["summary"])
            print("  " + run["how"])
            print("trace:")
            for r, (pidx, role) in zip(run["recs"], res["info"]["roles"]):
                print("  [%s%s] %s" % (role, pidx if pidx >= 0 else "", r["line"]))
            print("before: %s" % {k: (v["ino"], v["size"], v["sha"][:12]) for k, v in run["before"].items()})
            print("after:  %s" % {k: (v["ino"], v["size"], v["sha"][:12]) for k, v in run["after"].items()})
            for key, detail, _ in c["viols"] + res["viols"]:
                f_ = ctx.match_finding(key)
                tag = "KNOWN-FINDING" if f_ is not None and f_.get("status") == "known" else "VIOLATION"
                print("%s property=C17 key=%s\n  | %s" % (tag, key, detail))
                if tag == "VIOLATION":
                    code = 1
            if code == 0:
                print("C17 single case: no violation")
    finally:
        shutil.rmtree(ctx.scratch, ignore_errors=True)
        sys.stdout.flush()
    os._exit(code)
