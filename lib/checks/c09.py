"""C09 - memory limits are honoured and memory estimates are upper bounds."""
import build

SRC = ["hx_mem.c", "dec_common.c", "gen_stream.c", "vh.c"]
RULE = ("limit sweep (60% of cases): a .xz (1-30 Blocks, optional delta/x86 in the chain), .lzma or .lz file declaring a "
        "dictionary of 4 KiB..64 MiB (thorough to 1.5 GiB) is decoded once unlimited under a monitoring allocator (peak "
        "requested bytes = need), then with limits 1, need/2, need-40000, need, need+1, need+64 KiB, huge and a random one "
        "by the stream / threaded / auto / file-info / .lzma / .lz decoder: peak must stay below limit + allowance (32 KiB "
        "+ 1 KiB per thread); on LZMA_MEMLIMIT_ERROR lzma_memusage() is read, lzma_memlimit_set() raises to exactly that, "
        "and the decode must finish with output identical to the unlimited run; threaded decoder: peak <= "
        "memlimit_threading + allowance whenever the single-threaded decoder fits under it. Estimates (40%): measured "
        "peak of raw/easy/threaded encoders and raw/easy decoders vs lzma_*_memusage(). distinct = (file, decoder) / "
        "(configuration, coder). CLI part: the real xz under a heap-counting preload, "
        "compressing (presets 0-9[e], custom chains, -T1/2/4/8/0/+1, block sizes, xz/lzma/raw, --no-adjust) and "
        "decompressing/listing (dictionaries 4 KiB..1.5 GiB declared, -T1/-T4, --memlimit-decompress / "
        "--memlimit-mt-decompress / -M) with limits around the measured unlimited peak: exit 0 => heap peak <= limit + "
        "128 KiB and the output round-trips; exit 1 => memory-limit message, and the amount xz says is required, given "
        "as the new limit, must succeed; a huge limit must succeed; the soft threading limit is kept whenever one "
        "thread fits")


def prepare(tier):
    return build.build_harness("asan", "hx_mem", SRC)


def run(ctx):
    exe = prepare(ctx.tier)
    q = ctx.tier == "quick"
    ctx.rule = RULE
    ctx.assumptions = [
        "memory is counted as bytes requested through lzma_allocator (malloc overhead and thread stacks excluded)",
        "allowance = LZMA_MEMUSAGE_BASE (32 KiB) + 1 KiB per configured thread; the largest measured excess is reported "
        "in coverage.counters.max_excess_over_limit",
        "CLI part: heap bytes of the real xz (rel build, sandbox on) are malloc_usable_size sums kept by the "
        "LD_PRELOAD monitor preload/libxzmem.so; allowance for xz's own small buffers and page rounding = 128 KiB",
    ]
    ctx.run_shards(exe, ["--mode", "c09"], 1600 if q else 16000)
    cli_part(ctx, 320 if q else 6400)
    c = ctx.counters
    ctx.require("cli_compress_within_limit", c.get("cli_compress_within_limit", 0), 15)
    ctx.require("cli_compress_refused", c.get("cli_compress_refused", 0), 10)
    ctx.require("cli_compress_adjusted_dict", c.get("cli_compress_adjusted_dict", 0), 3)
    ctx.require("cli_compress_reduced_threads", c.get("cli_compress_reduced_threads", 0), 3)
    ctx.require("cli_decompress_limit_reached", c.get("cli_decompress_limit_reached", 0), 10)
    ctx.require("cli_decompress_raised_ok", c.get("cli_decompress_raised_ok", 0), 10)
    ctx.require("cli_decompress_mt_soft_limit", c.get("cli_decompress_mt_soft_limit", 0), 5)
    ctx.require("cli_list_limited", c.get("cli_list_limited", 0), 3)
    for d in ("stream", "stream_mt", "auto", "alone", "lzip", "file_info"):
        ctx.require("limited_" + d, c.get("limited_" + d, 0), 20)
    for d in ("stream", "stream_mt", "auto", "alone", "lzip"):
        ctx.require("memlimit_resume_" + d, c.get("memlimit_resume_" + d, 0), 20)
    ctx.require("file_info_many_block_files", c.get("file_info_many_block_files", 0), 20)
    ctx.require("mt_mixed_mode_files", c.get("mt_mixed_mode_files", 0), 20)
    for e in ("raw_encoder", "easy_encoder", "stream_encoder_mt", "raw_decoder", "easy_decoder"):
        ctx.require("estimate_" + e, c.get("estimate_" + e, 0), 30)


ALLOW_CLI = 128 << 10


def cli_part(ctx, ncases):
    """xz with a user-specified limit either stays within it or fails with the memory-limit error."""
    import os, random, re, struct, subprocess, zlib, concurrent.futures
    xz = os.path.join(build.build_flavour("rel"), "xz")
    so = build.build_shared("libxzmem.so", ["preload/libxzmem.c"])
    d = os.path.join(ctx.scratch, "cli")
    os.makedirs(d, exist_ok=True)
    files = os.path.join(build.SRC, "tests", "files")

    def runxz(tag, args, data, timeout=300):
        out = os.path.join(d, tag + ".mem")
        try:
            os.unlink(out)
        except OSError:
            pass
        env = {"PATH": os.environ.get("PATH", ""), "LC_ALL": "C", "LD_PRELOAD": so, "XZMEM_OUT": out}
        try:
            r = subprocess.run([xz] + args, input=data, stdout=subprocess.PIPE, stderr=subprocess.PIPE, env=env, timeout=timeout)
        except subprocess.TimeoutExpired:
            return None
        peak = None
        try:
            m = re.search(r"peak=(\d+)", open(out).read())
            if m:
                peak = int(m.group(1))
            os.unlink(out)
        except OSError:
            pass
        return r.returncode, r.stdout, r.stderr.decode("latin-1"), peak

    def plainxz(args, data):
        env = {"PATH": os.environ.get("PATH", ""), "LC_ALL": "C"}
        r = subprocess.run([xz] + args, input=data, stdout=subprocess.PIPE, stderr=subprocess.PIPE, env=env)
        return r.returncode, r.stdout, r.stderr.decode("latin-1")

    def gen_plain(rng, n):
        k = rng.random()
        if k < 0.3:
            return rng.randbytes(n)
        if k < 0.6:
            return (b"The quick brown fox jumps over the lazy dog. " * (n // 45 + 1))[:n]
        unit = rng.randbytes(rng.choice([3, 17, 1000, 40000]))
        return (unit * (n // len(unit) + 1))[:n]

    def pick_limit(rng, peak):
        k = rng.random()
        if k < 0.45:
            return max(1, int(peak * rng.uniform(0.03, 1.4)))
        if k < 0.6:
            return max(1, peak + rng.choice([-70000, -4096, -1, 0, 1, 4096, 70000, 200000, 1 << 20]))
        if k < 0.9:
            return rng.choice([1, 4096, 100 << 10, 1 << 20, 5 << 20, 10 << 20, 30 << 20, 100 << 20, 300 << 20, 1 << 30])
        return 1 << 60

    def set_dict_byte(data, b):
        # single-filter (LZMA2) Block Header written by xz -T1: [size][flags=0][0x21][1][dict][pad..][crc32]
        if data[13] != 0 or data[14] != 0x21 or data[15] != 1:
            return None
        hs = (data[12] + 1) * 4
        h = bytearray(data[12:12 + hs - 4])
        h[4] = b
        return data[:12] + bytes(h) + struct.pack("<I", zlib.crc32(bytes(h))) + data[12 + hs:]

    def viol(key, detail, i):
        return ("viol", key, detail + " [VERIF_SEED=%d cli case %d]" % (ctx.seed, i))

    def compress_case(rng, i):
        res = []
        n = rng.choice([0, 1, 1000, 100000, 1000000, 3000000, rng.randrange(0, 2000000)])
        plain = gen_plain(rng, n)
        fmt = rng.choice(["xz"] * 8 + ["lzma", "raw"])
        preset = "%d%s" % (rng.randrange(0, 10), "e" if rng.random() < 0.1 else "")
        args = []
        chain = []
        if fmt == "raw" or rng.random() < 0.3:
            dsz = rng.choice([4 << 10, 64 << 10, 1 << 20, 8 << 20, 32 << 20, 128 << 20, 256 << 20, rng.randrange(4 << 10, 64 << 20)])
            if fmt == "lzma":
                chain = ["--lzma1=preset=%s,dict=%d" % (preset, dsz)]
            else:
                pre = rng.choice([[], [], ["--x86"], ["--delta=dist=%d" % rng.randrange(1, 257)], ["--arm64"]])
                chain = pre + ["--lzma2=preset=%s,dict=%d" % (preset, dsz)]
        else:
            args.append("-" + preset)
        thr = rng.choice(["1", "1", "2", "4", "4", "8", "8", "0", "+1", "+4"])
        args += ["-T" + thr, "--format=" + fmt] + chain
        if rng.random() < 0.5:
            args.append("--block-size=%d" % rng.choice([65536, 1 << 20, 8 << 20]))
        base = ["-c"] + args
        u = runxz("c%d" % i, base, plain)
        if u is None or u[0] != 0 or u[3] is None:
            return [("skip", "unlimited compress run unusable: %r" % (None if u is None else (u[0], u[2][:200])))]
        peak_u = u[3]
        lim = pick_limit(rng, peak_u)
        opt = rng.choice(["--memlimit-compress=%d", "--memlimit-compress=%d", "-M%d", "--memlimit=%d"]) % lim
        extra = [opt] + (["--no-adjust"] if rng.random() < 0.25 else []) + ["-vv"]
        l = runxz("c%d" % i, ["-c"] + extra + args, plain)
        desc = "xz -c %s (%d bytes; unlimited heap peak %d)" % (" ".join(extra + args), n, peak_u)
        cls = "%s|T%s%s" % (fmt, "1" if thr == "1" else "mt", "|no-adjust" if "--no-adjust" in extra else "")
        if l is None:
            return [("skip", "timeout: " + desc)]
        rc, out, err, peak = l
        if rc in (0, 2):
            if peak is None:
                return [("skip", "no measurement: " + desc)]
            if peak > lim + ALLOW_CLI:
                res.append(viol("cli-compress-over-limit|" + cls, "%s: exit %d with heap peak %d > limit %d (+%d); stderr: %s" % (desc, rc, peak, lim, peak - lim, err[:300]), i))
            dargs = ["-dc", "-T1", "--format=" + fmt] + (chain if fmt == "raw" else [])
            if fmt == "raw" and "Adjusted" in err:
                res.append(viol("cli-raw-dictionary-adjusted", desc + ": " + err[:300], i))
            else:
                drc, dout, derr = plainxz(dargs, out)
                if drc != 0 or dout != plain:
                    res.append(viol("cli-compress-limited-output-wrong|" + cls, "%s: output does not decode to the input (xz -d exit %d, %s)" % (desc, drc, derr[:200]), i))
            res.append(("count", "cli_compress_within_limit"))
            res.append(("excess", peak - lim))
            if "Adjusted LZMA" in err:
                res.append(("count", "cli_compress_adjusted_dict"))
            if "Reduced the number of threads" in err:
                res.append(("count", "cli_compress_reduced_threads"))
            if "Switching to single-threaded" in err:
                res.append(("count", "cli_compress_switched_single_threaded"))
            if peak < peak_u - ALLOW_CLI:
                res.append(("count", "cli_compress_limit_changed_allocation"))
        elif rc == 1:
            if "emory usage limit" not in err:
                res.append(viol("cli-compress-fails-without-memlimit-error|" + cls, desc + ": exit 1, stderr: " + err[:300], i))
            elif lim >= 1 << 60:
                res.append(viol("cli-compress-refuses-huge-limit|" + cls, desc + ": " + err[:300], i))
            elif peak is not None and peak > lim + ALLOW_CLI:
                res.append(viol("cli-compress-over-limit-before-refusing|" + cls, "%s: heap peak %d > limit %d before the error" % (desc, peak, lim), i))
            res.append(("count", "cli_compress_refused"))
        else:
            res.append(viol("cli-compress-abnormal-exit|" + cls, "%s: exit %d, stderr %s" % (desc, rc, err[:300]), i))
        res.append(("hash", hash(("c", desc, lim))))
        res.append(("sample", desc + " -> exit %d, peak %s" % (rc, peak)))
        return res

    def make_file(rng):
        """-> (data, plain, description)"""
        k = rng.random()
        n = rng.choice([0, 10, 5000, 300000, rng.randrange(0, 600000)])
        plain = gen_plain(rng, n)
        if k < 0.08:
            name = rng.choice(["good-1-v0.lz", "good-1-v1.lz", "good-2-v0-v1.lz", "good-1-v1-trailing-1.lz"])
            data = open(os.path.join(files, name), "rb").read()
            rc, out, err = plainxz(["-dc", "-T1"], data)
            return (data, out, name) if rc == 0 else None
        dsz = rng.choice([4 << 10, 64 << 10, 1 << 20, 8 << 20, 64 << 20, rng.randrange(4 << 10, 64 << 20)])
        if k < 0.2:
            a = ["-c", "--format=lzma", "--lzma1=preset=0,dict=%d" % dsz]
            rc, out, err = plainxz(a, plain)
            return (out, plain, " ".join(a)) if rc == 0 else None
        data = b""
        whole = b""
        desc = []
        for s in range(rng.choice([1, 1, 1, 2, 3])):
            part = plain if s == 0 else gen_plain(rng, rng.choice([0, 100, 50000]))
            dd = dsz if s == 0 else rng.choice([4 << 10, 1 << 20, 16 << 20])
            pre = rng.choice([[], [], [], ["--x86"], ["--delta=dist=4"]])
            a = ["-c", "-T%d" % rng.choice([1, 1, 4])] + pre + ["--lzma2=preset=0,dict=%d" % dd]
            if rng.random() < 0.6:
                a.append("--block-size=%d" % rng.choice([4096, 65536, 200000]))
            rc, out, err = plainxz(a, part)
            if rc != 0:
                return None
            if s == 0 and rng.random() < 0.25 and "-T1" in a and "--block-size" not in " ".join(a) and not pre:
                b = rng.choice([30, 32, 34, 36, 37])   # 128 MiB .. 1.5 GiB declared, never used
                p2 = set_dict_byte(out, b)
                if p2 is not None:
                    out = p2
                    a.append("[dictionary byte patched to %d]" % b)
            data += out + b"\0" * (4 * rng.choice([0, 0, 1, 3]))
            whole += part
            desc.append(" ".join(a))
        return data, whole, " ; ".join(desc)

    def decompress_case(rng, i):
        res = []
        f = make_file(rng)
        if f is None:
            return [("skip", "file generation failed")]
        data, plain, fdesc = f
        u = runxz("d%d" % i, ["-dc", "-T1"], data)
        if u is None or u[0] != 0 or u[3] is None or u[1] != plain:
            return [("viol", "cli-unlimited-decode-wrong", "xz -dc -T1 of {%s}: %r" % (fdesc, None if u is None else (u[0], u[2][:200])))] if (u is not None and u[0] == 0 and u[1] != plain) else [("skip", "unlimited decode unusable")]
        peak1 = u[3]
        mode = rng.choice(["T1", "T1", "T4", "T4", "T4soft", "T4both"])
        lim = pick_limit(rng, peak1)
        soft = None
        if mode == "T1":
            args = ["-T1", rng.choice(["--memlimit-decompress=%d", "-M%d"]) % lim]
        elif mode == "T4":
            args = ["-T4", "--memlimit-decompress=%d" % lim]
        elif mode == "T4soft":
            soft = lim
            lim = None
            args = ["-T4", "--memlimit-mt-decompress=%d" % soft]
        else:
            soft = max(1, int(lim * rng.uniform(0.2, 1.0)))
            args = ["-T4", "--memlimit-decompress=%d" % lim, "--memlimit-mt-decompress=%d" % soft]
        desc = "xz -dc %s of {%s} (%d bytes; -T1 unlimited heap peak %d)" % (" ".join(args), fdesc, len(data), peak1)
        l = runxz("d%d" % i, ["-dc"] + args, data)
        if l is None:
            return [("skip", "timeout: " + desc)]
        rc, out, err, peak = l
        hard = lim
        if rc == 0:
            if out != plain:
                res.append(viol("cli-decompress-limited-output-wrong|" + mode, desc, i))
            if peak is not None and hard is not None and peak > hard + ALLOW_CLI:
                res.append(viol("cli-decompress-over-limit|" + mode, "%s: exit 0 with heap peak %d > limit %d" % (desc, peak, hard), i))
            if peak is not None and soft is not None and peak1 <= soft and peak > soft + ALLOW_CLI:
                res.append(viol("cli-decompress-over-threading-limit|" + mode, "%s: heap peak %d > threading limit %d although one thread needs %d" % (desc, peak, soft, peak1), i))
            if soft is not None and peak is not None:
                res.append(("count", "cli_decompress_mt_soft_limit"))
                if peak1 <= soft:
                    res.append(("count", "cli_decompress_mt_soft_limit_binding"))
            if hard is not None and peak is not None:
                res.append(("count", "cli_decompress_within_limit"))
                res.append(("excess", peak - hard))
        elif rc == 1:
            if hard is None:
                res.append(viol("cli-decompress-soft-limit-fails|" + mode, desc + ": " + err[:300], i))
            elif "Memory usage limit reached" not in err:
                res.append(viol("cli-decompress-fails-without-memlimit-error|" + mode, desc + ": " + err[:300], i))
            else:
                res.append(("count", "cli_decompress_limit_reached"))
                if hard >= 1 << 60:
                    res.append(viol("cli-decompress-refuses-huge-limit|" + mode, desc, i))
                if peak is not None and peak > hard + ALLOW_CLI:
                    res.append(viol("cli-decompress-over-limit-before-refusing|" + mode, "%s: heap peak %d > limit %d" % (desc, peak, hard), i))
                if plain[:len(out)] != out:
                    res.append(viol("cli-decompress-refused-output-not-prefix|" + mode, desc, i))
                # Later Blocks/Streams may need more than the one that stopped this run: follow xz's own figure until
                # it is enough; it must grow strictly and end in success.
                cur_err = err
                last_need = 0
                for _ in range(8):
                    m = re.search(r"(\d[\d,]*) MiB of memory is required", cur_err)
                    if not m:
                        break
                    need = int(m.group(1).replace(",", "")) << 20
                    if need <= last_need:
                        res.append(viol("cli-decompress-fails-with-reported-need|" + mode, "%s: xz asked for %d MiB again after being given it" % (desc, need >> 20), i))
                        break
                    last_need = need
                    a2 = [a if not a.startswith(("--memlimit-decompress", "-M")) else "--memlimit-decompress=%d" % need for a in args]
                    r2 = runxz("d%d" % i, ["-dc"] + a2, data)
                    if r2 is None:
                        break
                    if r2[0] == 1 and "Memory usage limit reached" in r2[2]:
                        cur_err = r2[2]
                        continue
                    if r2[0] != 0 or r2[1] != plain:
                        res.append(viol("cli-decompress-fails-with-reported-need|" + mode, "%s: xz asked for %d MiB; with that limit: exit %d %s" % (desc, need >> 20, r2[0], r2[2][:200]), i))
                    elif r2[3] is not None and r2[3] > need + ALLOW_CLI:
                        res.append(viol("cli-decompress-over-limit|" + mode, "%s: raised to %d, heap peak %d" % (desc, need, r2[3]), i))
                    else:
                        res.append(("count", "cli_decompress_raised_ok"))
                    break
        else:
            res.append(viol("cli-decompress-abnormal-exit|" + mode, "%s: exit %d %s" % (desc, rc, err[:300]), i))
        res.append(("hash", hash(("d", desc))))
        res.append(("sample", desc + " -> exit %d, peak %s" % (rc, peak)))
        return res

    def list_case(rng, i):
        res = []
        nb = rng.choice([3000, 8000, 20000])
        plain = gen_plain(rng, nb)
        rc, data, err = plainxz(["-c", "-T1", "-0", "--block-size=1"], plain)
        if rc != 0:
            return [("skip", "many-Block file: " + err[:200])]
        if rng.random() < 0.5:
            data = data + b"\0" * 8 + data
        path = os.path.join(d, "l%d.xz" % i)
        open(path, "wb").write(data)
        try:
            u = runxz("l%d" % i, ["--list", "--robot", path], b"")
            if u is None or u[0] != 0 or u[3] is None:
                return [("skip", "unlimited list unusable")]
            lim = pick_limit(rng, u[3])
            l = runxz("l%d" % i, ["--list", "--robot", "--memlimit-decompress=%d" % lim, path], b"")
        finally:
            os.unlink(path)
        desc = "xz --list --memlimit-decompress=%d of %d one-byte Blocks x %d (unlimited heap peak %d)" % (lim, nb, len(data) // max(1, len(data) // 2 + 1) + 1, u[3])
        if l is None:
            return [("skip", "timeout")]
        rc, out, err, peak = l
        if rc == 0:
            if out != u[1]:
                res.append(viol("cli-list-limited-output-differs", desc, i))
            if peak is not None and peak > lim + ALLOW_CLI:
                res.append(viol("cli-list-over-limit", "%s: heap peak %d" % (desc, peak), i))
            res.append(("count", "cli_list_within_limit"))
        elif rc == 1:
            if "Memory usage limit reached" not in err:
                res.append(viol("cli-list-fails-without-memlimit-error", desc + ": " + err[:300], i))
            elif peak is not None and peak > lim + ALLOW_CLI:
                res.append(viol("cli-list-over-limit-before-refusing", "%s: heap peak %d" % (desc, peak), i))
            res.append(("count", "cli_list_refused"))
        else:
            res.append(viol("cli-list-abnormal-exit", "%s: exit %d %s" % (desc, rc, err[:300]), i))
        res.append(("count", "cli_list_limited"))
        res.append(("hash", hash(("l", desc))))
        return res

    def one(i):
        rng = random.Random((ctx.seed << 24) ^ (i * 2654435761) ^ 0xC09)
        k = i % 20
        try:
            if k < 9:
                return i, compress_case(rng, i)
            if k < 19:
                return i, decompress_case(rng, i)
            return i, list_case(rng, i)
        except Exception as e:   # harness trouble is never a verdict
            return i, [("skip", "harness exception %r" % (e,))]

    max_excess = None
    with concurrent.futures.ThreadPoolExecutor(max_workers=12) as ex:
        for i, items in ex.map(one, range(ncases)):
            ctx.evaluations += 1
            ctx.count("cli_cases")
            for it in items:
                if it[0] == "viol":
                    ctx.violation(it[1], it[2], {"how": it[2]})
                elif it[0] == "count":
                    ctx.count(it[1])
                elif it[0] == "excess":
                    max_excess = it[1] if max_excess is None else max(max_excess, it[1])
                elif it[0] == "hash":
                    ctx.add_hash(it[1] & 0xFFFFFFFFFFFFFFFF)
                elif it[0] == "sample":
                    if len(ctx.samples) < 40 and i % 7 == 0:
                        ctx.samples.append("cli: " + it[1][:300])
                elif it[0] == "skip":
                    ctx.count("cli_skipped")
                    if len(ctx.notes) < 10:
                        ctx.notes.append("cli case %d: %s" % (i, it[1][:300]))
    if max_excess is not None:
        ctx.counters["cli_max_peak_minus_limit"] = max_excess
