"""C09 - memory limits are honoured and memory estimates are upper bounds."""
import build

SRC = ["hx_mem.c", "dec_common.c", "gen_stream.c", "vh.c"]
RULE = ("limit sweep (60% of cases): a .xz (1-30 Blocks, optional delta/x86 in the chain), .lzma or .lz file declaring a "
        "dictionary of 4 KiB..64 MiB (thorough to 1.5 GiB) is decoded once unlimited under a monitoring allocator (peak "
        "requested bytes = need), then with limits 1, need/2, need-40000, need, need+1, need+64 KiB, huge and a random one "
        "by the stream / threaded / auto / file-info / .lzma / .lz decoder: peak must stay below limit + allowance (32 KiB "
        "+ 1 KiB per thread); on LZMA_MEMLIMIT_ERROR lzma_memusage() is read, lzma_memlimit_set() raises to exactly that, "
        "and the decode must finish with output identical to the unlimited run; threaded decoder: peak <= "
        "memlimit_threading + allowance whenever the single-threaded decoder fits under it. Estimates (40%): measured "
        "peak of raw/easy/threaded encoders and raw/easy decoders vs lzma_*_memusage(). distinct = (file, decoder) / "
        "(configuration, coder)")


def prepare(tier):
    return build.build_harness("asan", "hx_mem", SRC)


def run(ctx):
    exe = prepare(ctx.tier)
    q = ctx.tier == "quick"
    ctx.rule = RULE
    ctx.assumptions = [
        "memory is counted as bytes requested through lzma_allocator (malloc overhead and thread stacks excluded)",
        "allowance = LZMA_MEMUSAGE_BASE (32 KiB) + 1 KiB per configured thread; the largest measured excess is reported "
        "in coverage.counters.max_excess_over_limit",
        "the xz tool's --memlimit handling is exercised by the CLI part (thorough tier)",
    ]
    ctx.run_shards(exe, ["--mode", "c09"], 1600 if q else 16000)
    c = ctx.counters
    for d in ("stream", "stream_mt", "auto", "alone", "lzip", "file_info"):
        ctx.require("limited_" + d, c.get("limited_" + d, 0), 20)
    for d in ("stream", "stream_mt", "auto", "alone", "lzip"):
        ctx.require("memlimit_resume_" + d, c.get("memlimit_resume_" + d, 0), 20)
    ctx.require("file_info_many_block_files", c.get("file_info_many_block_files", 0), 20)
    ctx.require("mt_mixed_mode_files", c.get("mt_mixed_mode_files", 0), 20)
    for e in ("raw_encoder", "easy_encoder", "stream_encoder_mt", "raw_decoder", "easy_decoder"):
        ctx.require("estimate_" + e, c.get("estimate_" + e, 0), 30)
