"""C14 - CRC32, CRC64 and SHA-256 equal their standard definitions for all inputs."""
import hashlib, json, os, random, struct, subprocess, zlib

import build, core
from checks.c15 import build_refhelper, REF_LIBS

RULE = ("case index -> (a) CRC sweep: every length 0..700 x {random, all-0, all-1, single-bit, counter} x every start "
        "alignment 0..63, buffer copied against a PROT_NONE page (end and start) and, under ASan, into an exact-size heap "
        "block; every two-piece split for lengths <= 160 and random multi-splits (also with the implementation changing "
        "from piece to piece); initial CRC 0 in the first sweep, random afterwards; (b) SHA-256 / check-interface sweep: "
        "every length 0..320 x 5 contents x 8 alignments, every two-piece split, one byte per update, random multi-piece "
        "updates, and the Check field lzma_block_buffer_encode stores; (c) SHA-256 over a message longer than 2^32 bits; "
        "(d) long buffers, log-uniform length to 1 MiB (thorough 16 MiB), random alignment/content/initial value/splits. "
        "Every value from lzma_crc32/lzma_crc64 (dispatch), the generic and the CLMUL implementation called separately "
        "through hook H2, and lzma_check_init/update/finish is compared with a bit-at-a-time and a table reference "
        "(harness/ref/check_ref.c), which are themselves compared once per run with Python's zlib.crc32 / hashlib.sha256, "
        "the CRC-64/XZ check value, and lzma_crc32/lzma_crc64 of released liblzma binaries. "
        "distinct = hash(content, length, initial value); non-trivial = length >= 1")

SA = {"quick": 8, "thorough": 64}   # must match hx_check.c main()
SB = {"quick": 4, "thorough": 32}
ND = {"quick": 1, "thorough": 3}
LONG = {"quick": 1200, "thorough": 12000}

SOURCES = ["hx_check.c", "vh.c", "ref/check_ref.c"]


def ncases(tier):
    return 701 * SA[tier] + 321 * SB[tier] + ND[tier] + LONG[tier]


def flavours(tier):
    return ["asan"] if tier == "quick" else ["asan", "small", "noclmul"]


def prepare(tier):
    build_refhelper()
    exes = {}
    for fl in flavours(tier):
        exes[fl] = build.build_harness(fl, "hx_check", SOURCES)
    return exes["asan"]


def helper_crc(helper, lib, records):
    """[(crc32, crc64)] for the records from a released liblzma, or None."""
    try:
        p = subprocess.Popen([helper, lib], stdin=subprocess.PIPE, stdout=subprocess.PIPE, stderr=subprocess.DEVNULL, env={})
    except OSError:
        return None
    out = []
    try:
        for d in records:
            vals = []
            for op in (2, 3):
                p.stdin.write(struct.pack("<BBBBIQII", op, 0, 0, 0, 0, 0, len(d), 0) + d)
                p.stdin.flush()
                hd = p.stdout.read(8)
                if len(hd) != 8:
                    return None
                st, ln = struct.unpack("<II", hd)
                body = p.stdout.read(ln)
                if st != 0 or ln != 8:
                    return None
                vals.append(struct.unpack("<Q", body)[0])
            out.append(tuple(vals))
        p.stdin.close()
        p.wait(timeout=30)
    except (OSError, subprocess.TimeoutExpired, struct.error):
        p.kill()
        return None
    return out


def record_replay(ctx, exe, i, d):
    """Keep the offending record so that the violation can be replayed by the harness alone."""
    rdir = os.path.join(build.VERIF, "replays")
    os.makedirs(rdir, exist_ok=True)
    path = os.path.join(rdir, "C14-%s-%d-xref-%d.bin" % (ctx.tier, ctx.seed, i))
    with open(path, "wb") as f:
        f.write(struct.pack("<I", len(d)) + d)
    return {"argv": [exe, "--mode", "xrefcheck", "--extra", path]}


def cross_check_references(ctx, exe):
    """Once per run: harness references == Python's zlib/hashlib == released libraries (CRC64: check value + libraries)."""
    rng = random.Random(ctx.seed * 1000003 + 14)
    records = [b"123456789", b"", b"abc"]
    for n in list(range(0, 131)) + [55, 56, 63, 64, 119, 120, 255, 256, 257, 700, 701]:
        records.append(bytes(rng.getrandbits(8) for _ in range(n)))
    for _ in range(24):
        n = int(2 ** rng.uniform(8, 17))
        k = rng.randrange(4)
        records.append(bytes(rng.getrandbits(8) for _ in range(n)) if k else bytes([rng.choice((0, 255))]) * n)
    path = os.path.join(ctx.scratch, "xref.bin")
    with open(path, "wb") as f:
        for d in records:
            f.write(struct.pack("<I", len(d)) + d)
    env = dict(os.environ)
    env.update(core.SAN_ENV)
    r = subprocess.run([exe, "--mode", "xref", "--extra", path], stdout=subprocess.PIPE, stderr=subprocess.PIPE, env=env, timeout=600)
    rows = [json.loads(l) for l in r.stdout.decode().splitlines() if l.startswith('{"t":"xref"')]
    if r.returncode != 0 or len(rows) != len(records):
        reports = core.parse_sanitizer(r.stderr.decode("utf-8", "replace"))
        if reports:
            import shutil
            keep = os.path.join(build.VERIF, "replays", "C14-%s-%d-xref-all.bin" % (ctx.tier, ctx.seed))
            os.makedirs(os.path.dirname(keep), exist_ok=True)
            shutil.copyfile(path, keep)
            for key, excerpt in reports:
                ctx.violation(key, excerpt, {"argv": [exe, "--mode", "xrefcheck", "--extra", keep]})
        ctx.inconclusive.append("reference cross-check run failed (exit %d, %d of %d records)" % (r.returncode, len(rows), len(records)))
        return
    referees = {"python_zlib_crc32": 0, "python_hashlib_sha256": 0, "crc64_check_value": 0}
    seen = set()

    def xviol(key, detail, i, d):
        # one replay record per violation class
        if key in seen:
            ctx.violation(key, detail)
        else:
            seen.add(key)
            ctx.violation(key, detail, record_replay(ctx, exe, i, d))

    bad_ref = []
    for d, row in zip(records, rows):
        c32 = "%08x" % (zlib.crc32(d) & 0xFFFFFFFF)
        sha = hashlib.sha256(d).hexdigest()
        ctx.evaluations += 3
        if row["ref_crc32"] != c32 or row["ref_crc32_bitwise"] != c32:
            bad_ref.append("crc32 of %d bytes: reference %s/%s, zlib %s" % (len(d), row["ref_crc32"], row["ref_crc32_bitwise"], c32))
        if row["ref_sha256"] != sha:
            bad_ref.append("sha256 of %d bytes: reference %s, hashlib %s" % (len(d), row["ref_sha256"], sha))
        if row["ref_crc64"] != row["ref_crc64_bitwise"]:
            bad_ref.append("crc64 of %d bytes: table %s, bitwise %s" % (len(d), row["ref_crc64"], row["ref_crc64_bitwise"]))
        referees["python_zlib_crc32"] += 1
        referees["python_hashlib_sha256"] += 1
        # the library under test against Python directly
        if row["lib_crc32"] != c32:
            xviol("crc32-mismatch|public|vs-zlib", "lzma_crc32 of %d bytes = %s, zlib.crc32 = %s (record %d of the cross-check file)"
                  % (len(d), row["lib_crc32"], c32, row["i"]), row["i"], d)
        if row["lib_sha256"] != sha:
            xviol("sha256-mismatch|vs-hashlib", "lzma_check SHA-256 of %d bytes = %s, hashlib = %s" % (len(d), row["lib_sha256"], sha),
                  row["i"], d)
    if rows[0]["ref_crc64"] != "995dc9bbdf1939fa":
        bad_ref.append("crc64 check value: reference %s, published 995dc9bbdf1939fa" % rows[0]["ref_crc64"])
    else:
        referees["crc64_check_value"] = 1
    if rows[0]["lib_crc64"] != "995dc9bbdf1939fa":
        xviol("crc64-mismatch|public|check-value", "lzma_crc64(\"123456789\") = %s, published check value 995dc9bbdf1939fa" % rows[0]["lib_crc64"],
              0, records[0])
    # released libraries
    try:
        helper = build_refhelper()
    except build.BuildError:
        helper = None
    missing = []
    for lib in REF_LIBS:
        vals = helper_crc(helper, lib, records) if helper and os.path.exists(lib) else None
        name = os.path.basename(lib)
        if vals is None:
            missing.append(lib)
            continue
        n = 0
        for d, row, (c32, c64) in zip(records, rows, vals):
            n += 1
            ctx.evaluations += 2
            if "%08x" % c32 != row["ref_crc32"] or "%016x" % c64 != row["ref_crc64"]:
                bad_ref.append("%s: crc32 %08x crc64 %016x of %d bytes, reference %s %s" % (name, c32, c64, len(d), row["ref_crc32"], row["ref_crc64"]))
            if "%016x" % c64 != row["lib_crc64"]:
                xviol("crc64-mismatch|public|vs-released", "lzma_crc64 of %d bytes = %s, released %s gives %016x (reference %s)"
                      % (len(d), row["lib_crc64"], name, c64, row["ref_crc64"]), row["i"], d)
        referees["released_" + name] = n
    ctx.extra_cov["referees"] = dict(referees, released_libraries_missing=missing)
    if missing:
        ctx.notes.append("released liblzma not available as CRC referee: %s (coverage reduced, verdict unaffected)" % ", ".join(missing))
    if bad_ref:
        ctx.inconclusive.append("the harness references disagree with their own referees: " + "; ".join(bad_ref[:4]))


def run(ctx):
    exe = prepare(ctx.tier)
    ctx.rule = RULE
    ctx.assumptions = [
        "flavour asan (gcc ASan+UBSan, assertions) for the main comparison: both the table-driven and the CLMUL "
        "implementation are in that library and are reached separately through hook H2; the thorough tier repeats the "
        "comparison linked against the size-optimised (crc32_small.c/crc64_small.c) and the CLMUL-less library builds",
        "the harness mirrors the internal lzma_check_state layout (result in the first bytes of the structure); the "
        "assumption is verified by known-answer tests at the start of every harness process",
        "all contents of a given length are sampled (5 content classes per length and placement), not enumerated; only "
        "the x86-64 code paths can run on this machine",
        "the bit-at-a-time references are correct: cross-checked in every run against zlib.crc32, hashlib.sha256, the "
        "CRC-64/XZ check value and released liblzma binaries",
    ]
    cross_check_references(ctx, exe)
    cases = ncases(ctx.tier)
    per = {}
    before = {}
    for fl in flavours(ctx.tier):
        fexe = build.build_harness(fl, "hx_check", SOURCES)
        ctx.run_shards(fexe, ["--prop", "C14", "--mode", fl], cases, label="hx_check-" + fl)
        per[fl] = {k: v - before.get(k, 0) for k, v in ctx.counters.items() if k not in ctx.maxnames}
        before = dict(ctx.counters)
    ctx.extra_cov["per_flavour"] = {fl: {k: per[fl].get(k, 0) for k in ("crc_evaluations", "sha256_evaluations", "crc_arch_evaluations",
                                                                       "crc_generic_evaluations")} for fl in per}
    a = per["asan"]
    scale = 1 if ctx.tier == "quick" else 8
    ctx.require("crc_evaluations", a.get("crc_evaluations", 0), 2000000 * scale)
    ctx.require("sha256_evaluations", a.get("sha256_evaluations", 0), 100000 * scale)
    # CLMUL code must have run (CPU support is needed; without it the arch path cannot be decided here)
    ctx.require("crc_arch_evaluations", a.get("crc_arch_evaluations", 0), 500000 * scale)
    ctx.require("crc_generic_evaluations", a.get("crc_generic_evaluations", 0), 500000 * scale)
    ctx.require("crc_sweep_cases", a.get("crc_sweep_cases", 0), 701 * SA[ctx.tier])
    ctx.require("sha_sweep_cases", a.get("sha_sweep_cases", 0), 321 * SB[ctx.tier])
    ctx.require("long_cases", a.get("long_cases", 0), LONG[ctx.tier] * 9 // 10)
    ctx.require("sha_over_2e32_bits", a.get("sha_over_2e32_bits", 0), 1)
    ctx.require("blockfield_checked", a.get("blockfield_checked", 0), 1000)
    if ctx.tier == "thorough":
        ctx.require("sha_over_2e32_bytes", a.get("sha_over_2e32_bytes", 0), 1)
        for fl in ("small", "noclmul"):
            ctx.require("crc_evaluations_" + fl, per[fl].get("crc_evaluations", 0), 1000000)
            ctx.require("sha256_evaluations_" + fl, per[fl].get("sha256_evaluations", 0), 100000)
