/*
 * libxzio.so - LD_PRELOAD syscall-wrapper tracer and fault injector for the
 * real xz binary (property C17).
 *
 * Environment:
 *   XZIO_LOG_FD   number of an inherited, O_APPEND-opened descriptor; one text
 *                 record per relevant call is appended with the raw write
 *                 syscall (never through the interposed write()).
 *   XZIO_DIR      absolute path of the scratch directory; a path is relevant
 *                 when it is that directory or lies below it, a descriptor is
 *                 relevant when it was opened from such a path.
 *   XZIO_STD      string of digits: standard descriptors that are relevant
 *                 as well ("1" = stdout, "01" = stdin and stdout).
 *   XZIO_PLAN     comma separated fault plan, each item one of
 *                   none
 *                   fail:<call>:<k>:<errno>   k-th relevant call of that kind fails
 *                   eintr:<call>:<k>          = fail:<call>:<k>:EINTR
 *                   eagain:<call>:<k>         = fail:<call>:<k>:EAGAIN
 *                   short:<call>:<k>          read/write: half the count (>= 1)
 *                   signal:<k>:<signo>        signal to the calling thread before
 *                                             the k-th relevant call of ANY kind
 *                   sigeintr:<call>:<k>:<signo>  signal, then that call fails EINTR
 *                   kill:<k>                  SIGKILL before the k-th relevant call
 *   XZIO_FAKESYNC if "1", fsync/fdatasync on relevant descriptors return 0
 *                 without entering the kernel (never used by the check itself;
 *                 a debugging aid).
 *
 * <call> is the call *kind*: open (open, open64, openat, openat64), read,
 * write, lseek (lseek, lseek64), fsync (fsync, fdatasync), close, unlink
 * (unlink, unlinkat), fchmod, fchown, futimens (futimens, utimensat), fstat,
 * stat, lstat, poll, fcntl (fcntl, fcntl64), fadvise (posix_fadvise(64)).
 *
 * Record (one line, fields separated by one blank, path last):
 *   n=<index over all relevant calls> kn=<index within the kind> tid=<tid>
 *   call=<function name> kind=<kind> fd=<fd|-1> dev=<maj:min-as-hex st_dev>
 *   ino=<st_ino> sz=<st_size> a0=<arg> a1=<arg> res=<result> err=<errno>
 *   inj=<-|fail:<errno>|short|signal:<signo>|kill> path=<path|->
 * dev/ino/sz describe the descriptor (fstat before the call; for open: of the
 * new descriptor after the call; for unlink/stat/lstat: lstat of the path
 * before the call).  Pseudo records call=signal / call=kill are written
 * immediately before the signal is raised.
 *
 * After xz has enabled its Landlock sandbox the shim only uses fstat /
 * newfstatat / write / tgkill / kill / gettid, none of which Landlock governs;
 * it never opens anything.
 */
#define _GNU_SOURCE
#include <dlfcn.h>
#include <errno.h>
#include <fcntl.h>
#include <poll.h>
#include <signal.h>
#include <stdarg.h>
#include <stdint.h>
#include <stdio.h>
#include <stdlib.h>
#include <string.h>
#include <sys/stat.h>
#include <sys/syscall.h>
#include <sys/types.h>
#include <unistd.h>

enum kind {
	K_OPEN, K_READ, K_WRITE, K_LSEEK, K_FSYNC, K_CLOSE, K_UNLINK, K_FCHMOD,
	K_FCHOWN, K_FUTIMENS, K_FSTAT, K_STAT, K_LSTAT, K_POLL, K_FCNTL,
	K_FADVISE, K_COUNT
};

static const char *const kind_name[K_COUNT] = {
	"open", "read", "write", "lseek", "fsync", "close", "unlink", "fchmod",
	"fchown", "futimens", "fstat", "stat", "lstat", "poll", "fcntl",
	"fadvise",
};

enum ptype { P_FAIL, P_SHORT, P_SIGNAL, P_SIGEINTR, P_KILL };

struct item {
	enum ptype type;
	int kind;       /* -1: any */
	long k;
	int err;
	int signo;
};

#define MAX_ITEMS 16
#define MAX_FD 4096

static struct item plan[MAX_ITEMS];
static int plan_n;
static int log_fd = -1;
static char dir_prefix[4096];
static size_t dir_len;
static int fake_sync;
static unsigned char fd_rel[MAX_FD];
static long total_count;
static long kind_count[K_COUNT];
static int init_state; /* 0 = no, 1 = in progress, 2 = done */

static const struct { const char *name; int value; } errnos[] = {
	{"EIO", EIO}, {"ENOSPC", ENOSPC}, {"EDQUOT", EDQUOT}, {"EINTR", EINTR},
	{"EAGAIN", EAGAIN}, {"EBADF", EBADF}, {"EFBIG", EFBIG}, {"EROFS", EROFS},
	{"ENOMEM", ENOMEM}, {"EPERM", EPERM}, {"EACCES", EACCES},
	{"EINVAL", EINVAL}, {"ENOENT", ENOENT}, {"EEXIST", EEXIST},
	{"EBUSY", EBUSY}, {"EPIPE", EPIPE}, {"ESPIPE", ESPIPE},
	{"EOVERFLOW", EOVERFLOW}, {"EMFILE", EMFILE}, {"ENFILE", ENFILE},
	{"ELOOP", ELOOP}, {"ENOTDIR", ENOTDIR}, {"EISDIR", EISDIR},
	{"ENOTSUP", ENOTSUP}, {"ENOSYS", ENOSYS}, {"ENXIO", ENXIO},
};

/* ---- real functions ------------------------------------------------- */

static int (*real_open)(const char *, int, ...);
static int (*real_open64)(const char *, int, ...);
static int (*real_openat)(int, const char *, int, ...);
static int (*real_openat64)(int, const char *, int, ...);
static ssize_t (*real_read)(int, void *, size_t);
static ssize_t (*real_write)(int, const void *, size_t);
static off_t (*real_lseek)(int, off_t, int);
static off64_t (*real_lseek64)(int, off64_t, int);
static int (*real_fsync)(int);
static int (*real_fdatasync)(int);
static int (*real_close)(int);
static int (*real_unlink)(const char *);
static int (*real_unlinkat)(int, const char *, int);
static int (*real_fchmod)(int, mode_t);
static int (*real_fchown)(int, uid_t, gid_t);
static int (*real_futimens)(int, const struct timespec[2]);
static int (*real_utimensat)(int, const char *, const struct timespec[2], int);
static int (*real_fstat)(int, struct stat *);
static int (*real_stat)(const char *, struct stat *);
static int (*real_lstat)(const char *, struct stat *);
static int (*real_fstat64)(int, struct stat64 *);
static int (*real_stat64)(const char *, struct stat64 *);
static int (*real_lstat64)(const char *, struct stat64 *);
static int (*real_poll)(struct pollfd *, nfds_t, int);
static int (*real_fcntl)(int, int, ...);
static int (*real_fcntl64)(int, int, ...);
static int (*real_posix_fadvise)(int, off_t, off_t, int);
static int (*real_posix_fadvise64)(int, off64_t, off64_t, int);


static int
parse_errno(const char *s)
{
	for (size_t i = 0; i < sizeof(errnos) / sizeof(errnos[0]); ++i)
		if (strcmp(s, errnos[i].name) == 0)
			return errnos[i].value;
	return atoi(s);
}


static int
parse_kind(const char *s)
{
	for (int i = 0; i < K_COUNT; ++i)
		if (strcmp(s, kind_name[i]) == 0)
			return i;
	return -2;
}


static void
parse_plan(const char *text)
{
	char buf[1024];
	snprintf(buf, sizeof(buf), "%s", text);
	char *save1 = NULL;
	for (char *it = strtok_r(buf, ",", &save1); it != NULL;
			it = strtok_r(NULL, ",", &save1)) {
		char *f[5] = { NULL, NULL, NULL, NULL, NULL };
		int nf = 0;
		char *save2 = NULL;
		for (char *p = strtok_r(it, ":", &save2); p != NULL && nf < 5;
				p = strtok_r(NULL, ":", &save2))
			f[nf++] = p;
		if (nf == 0 || strcmp(f[0], "none") == 0
				|| plan_n == MAX_ITEMS)
			continue;
		struct item x = { P_FAIL, -1, 0, 0, 0 };
		int ok = 0;
		if (strcmp(f[0], "fail") == 0 && nf == 4) {
			x.type = P_FAIL; x.kind = parse_kind(f[1]);
			x.k = atol(f[2]); x.err = parse_errno(f[3]); ok = 1;
		} else if (strcmp(f[0], "eintr") == 0 && nf == 3) {
			x.type = P_FAIL; x.kind = parse_kind(f[1]);
			x.k = atol(f[2]); x.err = EINTR; ok = 1;
		} else if (strcmp(f[0], "eagain") == 0 && nf == 3) {
			x.type = P_FAIL; x.kind = parse_kind(f[1]);
			x.k = atol(f[2]); x.err = EAGAIN; ok = 1;
		} else if (strcmp(f[0], "short") == 0 && nf == 3) {
			x.type = P_SHORT; x.kind = parse_kind(f[1]);
			x.k = atol(f[2]); ok = 1;
		} else if (strcmp(f[0], "signal") == 0 && nf == 3) {
			x.type = P_SIGNAL; x.k = atol(f[1]);
			x.signo = atoi(f[2]); ok = 1;
		} else if (strcmp(f[0], "sigeintr") == 0 && nf == 4) {
			x.type = P_SIGEINTR; x.kind = parse_kind(f[1]);
			x.k = atol(f[2]); x.signo = atoi(f[3]);
			x.err = EINTR; ok = 1;
		} else if (strcmp(f[0], "kill") == 0 && nf == 2) {
			x.type = P_KILL; x.k = atol(f[1]); ok = 1;
		}
		if (ok && x.kind != -2 && x.k > 0)
			plan[plan_n++] = x;
		else {
			/* A plan that cannot be parsed must not look like a
			 * clean run: say so in the log. */
			const char msg[] = "n=0 kn=0 tid=0 call=badplan kind=badplan fd=-1 "
				"dev=0 ino=0 sz=0 a0=0 a1=0 res=0 err=0 inj=- path=-\n";
			if (log_fd >= 0)
				syscall(SYS_write, log_fd, msg, sizeof(msg) - 1);
		}
	}
}


#define RESOLVE(name) real_##name = dlsym(RTLD_NEXT, #name)

static void
init(void)
{
	int expected = 0;
	if (!__atomic_compare_exchange_n(&init_state, &expected, 1, 0,
			__ATOMIC_ACQ_REL, __ATOMIC_ACQUIRE)) {
		/* Another thread (or a recursive call from dlsym) is or was
		 * initialising.  Recursion from the same thread must not
		 * spin; callers cope with NULL real_* by using raw syscalls
		 * only in the wrappers where that can happen (none in
		 * practice: dlsym does not call the wrapped functions). */
		while (__atomic_load_n(&init_state, __ATOMIC_ACQUIRE) == 1)
			;
		return;
	}
	RESOLVE(open); RESOLVE(open64); RESOLVE(openat); RESOLVE(openat64);
	RESOLVE(read); RESOLVE(write); RESOLVE(lseek); RESOLVE(lseek64);
	RESOLVE(fsync); RESOLVE(fdatasync); RESOLVE(close); RESOLVE(unlink);
	RESOLVE(unlinkat); RESOLVE(fchmod); RESOLVE(fchown); RESOLVE(futimens);
	RESOLVE(utimensat); RESOLVE(fstat); RESOLVE(stat); RESOLVE(lstat);
	RESOLVE(fstat64); RESOLVE(stat64); RESOLVE(lstat64);
	RESOLVE(poll); RESOLVE(fcntl); RESOLVE(fcntl64);
	RESOLVE(posix_fadvise); RESOLVE(posix_fadvise64);

	const char *s = getenv("XZIO_LOG_FD");
	if (s != NULL && *s != '\0')
		log_fd = atoi(s);
	s = getenv("XZIO_DIR");
	if (s != NULL && *s != '\0') {
		snprintf(dir_prefix, sizeof(dir_prefix), "%s", s);
		dir_len = strlen(dir_prefix);
		while (dir_len > 1 && dir_prefix[dir_len - 1] == '/')
			dir_prefix[--dir_len] = '\0';
	}
	s = getenv("XZIO_STD");
	if (s != NULL)
		for (; *s != '\0'; ++s)
			if (*s >= '0' && *s <= '2')
				fd_rel[*s - '0'] = 1;
	s = getenv("XZIO_FAKESYNC");
	fake_sync = s != NULL && s[0] == '1';
	s = getenv("XZIO_PLAN");
	if (s != NULL)
		parse_plan(s);
	__atomic_store_n(&init_state, 2, __ATOMIC_RELEASE);
}

#define INIT() do { if (__atomic_load_n(&init_state, __ATOMIC_ACQUIRE) != 2) init(); } while (0)

__attribute__((constructor)) static void
ctor(void)
{
	INIT();
}


/* ---- helpers ---------------------------------------------------------- */

static int
path_relevant(const char *path)
{
	if (path == NULL || dir_len == 0)
		return 0;
	if (strncmp(path, dir_prefix, dir_len) != 0)
		return 0;
	return path[dir_len] == '/' || path[dir_len] == '\0';
}


static int
fd_relevant(int fd)
{
	return fd >= 0 && fd < MAX_FD
			&& __atomic_load_n(&fd_rel[fd], __ATOMIC_RELAXED);
}


static void
fd_set_rel(int fd, int v)
{
	if (fd >= 0 && fd < MAX_FD)
		__atomic_store_n(&fd_rel[fd], (unsigned char)v,
				__ATOMIC_RELAXED);
}


struct ident { unsigned long dev; unsigned long ino; long long sz; };

static void
ident_fd(int fd, struct ident *id)
{
	struct stat st;
	id->dev = 0; id->ino = 0; id->sz = -1;
	if (fd >= 0 && syscall(SYS_fstat, fd, &st) == 0) {
		id->dev = (unsigned long)st.st_dev;
		id->ino = (unsigned long)st.st_ino;
		id->sz = (long long)st.st_size;
	}
}


static void
ident_path(int dirfd, const char *path, struct ident *id)
{
	struct stat st;
	id->dev = 0; id->ino = 0; id->sz = -1;
	if (path != NULL && syscall(SYS_newfstatat, dirfd, path, &st,
			AT_SYMLINK_NOFOLLOW) == 0) {
		id->dev = (unsigned long)st.st_dev;
		id->ino = (unsigned long)st.st_ino;
		id->sz = (long long)st.st_size;
	}
}


struct decision {
	long n;
	long kn;
	int fail;       /* errno to fail with, 0 = none */
	int shorten;
	int signo;      /* signal raised together with the failure */
};


static void
emit(long n, long kn, const char *call, const char *kind, int fd,
		const struct ident *id, long long a0, long long a1,
		long long res, int err, const char *inj, const char *path)
{
	if (log_fd < 0)
		return;
	char buf[4600];
	int len = snprintf(buf, sizeof(buf),
		"n=%ld kn=%ld tid=%ld call=%s kind=%s fd=%d dev=%lx ino=%lu sz=%lld "
		"a0=%lld a1=%lld res=%lld err=%d inj=%s path=%s\n",
		n, kn, (long)syscall(SYS_gettid), call, kind, fd,
		id ? id->dev : 0UL, id ? id->ino : 0UL, id ? id->sz : -1LL,
		a0, a1, res, err, inj, path ? path : "-");
	if (len < 0)
		return;
	if ((size_t)len >= sizeof(buf)) {
		len = (int)sizeof(buf) - 1;
		buf[len - 1] = '\n';
	}
	syscall(SYS_write, log_fd, buf, (size_t)len);
}


/* Count the call, fire signal/kill items that are due before it and decide
 * whether the call itself is to be perturbed. */
static void
decide(int kind, int fd, const struct ident *id, struct decision *d)
{
	d->n = __atomic_add_fetch(&total_count, 1, __ATOMIC_SEQ_CST);
	d->kn = __atomic_add_fetch(&kind_count[kind], 1, __ATOMIC_SEQ_CST);
	d->fail = 0;
	d->shorten = 0;
	d->signo = 0;

	for (int i = 0; i < plan_n; ++i) {
		const struct item *x = &plan[i];
		char inj[48];
		switch (x->type) {
		case P_SIGNAL:
			if (x->k == d->n) {
				snprintf(inj, sizeof(inj), "signal:%d", x->signo);
				emit(d->n, d->kn, "signal", kind_name[kind], fd, id,
						x->signo, 0, 0, 0, inj, NULL);
				syscall(SYS_tgkill, (long)getpid(),
						(long)syscall(SYS_gettid),
						x->signo);
			}
			break;
		case P_KILL:
			if (x->k == d->n) {
				emit(d->n, d->kn, "kill", kind_name[kind], fd, id,
						SIGKILL, 0, 0, 0, "kill", NULL);
				syscall(SYS_kill, (long)getpid(), SIGKILL);
				for (;;)
					pause();
			}
			break;
		case P_FAIL:
			if (x->kind == kind && x->k == d->kn)
				d->fail = x->err;
			break;
		case P_SHORT:
			if (x->kind == kind && x->k == d->kn)
				d->shorten = 1;
			break;
		case P_SIGEINTR:
			if (x->kind == kind && x->k == d->kn) {
				d->fail = EINTR;
				d->signo = x->signo;
				snprintf(inj, sizeof(inj), "signal:%d", x->signo);
				emit(d->n, d->kn, "signal", kind_name[kind], fd, id,
						x->signo, 0, 0, 0, inj, NULL);
				syscall(SYS_tgkill, (long)getpid(),
						(long)syscall(SYS_gettid),
						x->signo);
			}
			break;
		}
	}
}


static const char *
inj_text(const struct decision *d, char *buf, size_t size, int shortened)
{
	if (d->fail != 0) {
		const char *name = NULL;
		for (size_t i = 0; i < sizeof(errnos) / sizeof(errnos[0]); ++i)
			if (errnos[i].value == d->fail) {
				name = errnos[i].name;
				break;
			}
		if (name != NULL)
			snprintf(buf, size, "fail:%s", name);
		else
			snprintf(buf, size, "fail:%d", d->fail);
		return buf;
	}
	if (shortened)
		return "short";
	return "-";
}


/* ---- open family ---------------------------------------------------------- */

static int
open_common(const char *fname, int which, int dirfd, const char *path,
		int flags, mode_t mode)
{
	INIT();
	const int rel = path_relevant(path) && (which < 2 || dirfd == AT_FDCWD
			|| (path != NULL && path[0] == '/'));
	struct decision d = { 0, 0, 0, 0, 0 };
	if (rel)
		decide(K_OPEN, -1, NULL, &d);

	int fd;
	int err;
	if (rel && d.fail != 0) {
		fd = -1;
		err = d.fail;
	} else {
		switch (which) {
		case 0: fd = real_open(path, flags, mode); break;
		case 1: fd = real_open64(path, flags, mode); break;
		case 2: fd = real_openat(dirfd, path, flags, mode); break;
		default: fd = real_openat64(dirfd, path, flags, mode); break;
		}
		err = errno;
	}

	if (fd >= 0)
		fd_set_rel(fd, rel);

	if (rel) {
		struct ident id;
		char ib[32];
		ident_fd(fd, &id);
		emit(d.n, d.kn, fname, "open", fd, &id, (long long)flags,
				(long long)mode, fd, fd < 0 ? err : 0,
				inj_text(&d, ib, sizeof(ib), 0), path);
	}
	errno = err;
	return fd;
}

#define OPEN_MODE() \
	mode_t mode = 0; \
	if ((flags & O_CREAT) || (flags & O_TMPFILE) == O_TMPFILE) { \
		va_list ap; va_start(ap, flags); \
		mode = (mode_t)va_arg(ap, int); va_end(ap); \
	}

int open(const char *path, int flags, ...)
{ OPEN_MODE(); return open_common("open", 0, AT_FDCWD, path, flags, mode); }

int open64(const char *path, int flags, ...)
{ OPEN_MODE(); return open_common("open64", 1, AT_FDCWD, path, flags, mode); }

int openat(int dirfd, const char *path, int flags, ...)
{ OPEN_MODE(); return open_common("openat", 2, dirfd, path, flags, mode); }

int openat64(int dirfd, const char *path, int flags, ...)
{ OPEN_MODE(); return open_common("openat64", 3, dirfd, path, flags, mode); }


/* ---- read / write --------------------------------------------------------- */

ssize_t
read(int fd, void *buf, size_t count)
{
	INIT();
	if (!fd_relevant(fd))
		return real_read(fd, buf, count);

	struct ident id;
	struct decision d;
	ident_fd(fd, &id);
	decide(K_READ, fd, &id, &d);

	ssize_t res;
	int err = 0;
	int shortened = 0;
	if (d.fail != 0) {
		res = -1;
		err = d.fail;
	} else {
		size_t c = count;
		if (d.shorten && count >= 2) {
			c = count / 2;
			shortened = 1;
		}
		res = real_read(fd, buf, c);
		err = errno;
	}
	char ib[32];
	emit(d.n, d.kn, "read", "read", fd, &id, (long long)count, 0,
			(long long)res, res < 0 ? err : 0,
			inj_text(&d, ib, sizeof(ib), shortened), NULL);
	errno = err;
	return res;
}


ssize_t
write(int fd, const void *buf, size_t count)
{
	INIT();
	if (!fd_relevant(fd))
		return real_write(fd, buf, count);

	struct ident id;
	struct decision d;
	ident_fd(fd, &id);
	decide(K_WRITE, fd, &id, &d);

	ssize_t res;
	int err = 0;
	int shortened = 0;
	if (d.fail != 0) {
		res = -1;
		err = d.fail;
	} else {
		size_t c = count;
		if (d.shorten && count >= 2) {
			c = count / 2;
			shortened = 1;
		}
		res = real_write(fd, buf, c);
		err = errno;
	}
	char ib[32];
	emit(d.n, d.kn, "write", "write", fd, &id, (long long)count, 0,
			(long long)res, res < 0 ? err : 0,
			inj_text(&d, ib, sizeof(ib), shortened), NULL);
	errno = err;
	return res;
}


/* ---- lseek ------------------------------------------------------------------- */

static off64_t
lseek_common(const char *fname, int which, int fd, off64_t off, int whence)
{
	INIT();
	if (!fd_relevant(fd))
		return which == 0 ? (off64_t)real_lseek(fd, (off_t)off, whence)
				: real_lseek64(fd, off, whence);

	struct ident id;
	struct decision d;
	ident_fd(fd, &id);
	decide(K_LSEEK, fd, &id, &d);

	off64_t res;
	int err = 0;
	if (d.fail != 0) {
		res = -1;
		err = d.fail;
	} else {
		res = which == 0 ? (off64_t)real_lseek(fd, (off_t)off, whence)
				: real_lseek64(fd, off, whence);
		err = errno;
	}
	char ib[32];
	emit(d.n, d.kn, fname, "lseek", fd, &id, (long long)off, whence,
			(long long)res, res < 0 ? err : 0,
			inj_text(&d, ib, sizeof(ib), 0), NULL);
	errno = err;
	return res;
}

off_t lseek(int fd, off_t off, int whence)
{ return (off_t)lseek_common("lseek", 0, fd, off, whence); }

off64_t lseek64(int fd, off64_t off, int whence)
{ return lseek_common("lseek64", 1, fd, off, whence); }


/* ---- simple descriptor calls ------------------------------------------------ */

static int
sync_common(const char *fname, int which, int fd)
{
	INIT();
	if (!fd_relevant(fd))
		return which == 0 ? real_fsync(fd) : real_fdatasync(fd);

	struct ident id;
	struct decision d;
	ident_fd(fd, &id);
	decide(K_FSYNC, fd, &id, &d);

	int res;
	int err = 0;
	if (d.fail != 0) {
		res = -1;
		err = d.fail;
	} else if (fake_sync) {
		res = 0;
	} else {
		res = which == 0 ? real_fsync(fd) : real_fdatasync(fd);
		err = errno;
	}
	char ib[32];
	emit(d.n, d.kn, fname, "fsync", fd, &id, 0, 0, res, res < 0 ? err : 0,
			inj_text(&d, ib, sizeof(ib), 0), NULL);
	errno = err;
	return res;
}

int fsync(int fd) { return sync_common("fsync", 0, fd); }
int fdatasync(int fd) { return sync_common("fdatasync", 1, fd); }


int
close(int fd)
{
	INIT();
	if (!fd_relevant(fd)) {
		/* The log descriptor must survive a stray close(). */
		if (fd == log_fd && log_fd >= 0) {
			errno = EBADF;
			return -1;
		}
		return real_close(fd);
	}

	struct ident id;
	struct decision d;
	ident_fd(fd, &id);
	decide(K_CLOSE, fd, &id, &d);

	/* As on Linux, a close() that reports an error has still released
	 * the descriptor. */
	int res = real_close(fd);
	int err = errno;
	if (fd > 2)
		fd_set_rel(fd, 0);
	if (d.fail != 0) {
		res = -1;
		err = d.fail;
	}
	char ib[32];
	emit(d.n, d.kn, "close", "close", fd, &id, 0, 0, res,
			res < 0 ? err : 0, inj_text(&d, ib, sizeof(ib), 0), NULL);
	errno = err;
	return res;
}


static int
unlink_common(const char *fname, int which, int dirfd, const char *path,
		int flags)
{
	INIT();
	const int rel = path_relevant(path);
	if (!rel)
		return which == 0 ? real_unlink(path)
				: real_unlinkat(dirfd, path, flags);

	struct ident id;
	struct decision d;
	ident_path(which == 0 ? AT_FDCWD : dirfd, path, &id);
	decide(K_UNLINK, -1, &id, &d);

	int res;
	int err = 0;
	if (d.fail != 0) {
		res = -1;
		err = d.fail;
	} else {
		res = which == 0 ? real_unlink(path)
				: real_unlinkat(dirfd, path, flags);
		err = errno;
	}
	char ib[32];
	emit(d.n, d.kn, fname, "unlink", -1, &id, flags, 0, res,
			res < 0 ? err : 0, inj_text(&d, ib, sizeof(ib), 0), path);
	errno = err;
	return res;
}

int unlink(const char *path)
{ return unlink_common("unlink", 0, AT_FDCWD, path, 0); }

int unlinkat(int dirfd, const char *path, int flags)
{ return unlink_common("unlinkat", 1, dirfd, path, flags); }


int
fchmod(int fd, mode_t mode)
{
	INIT();
	if (!fd_relevant(fd))
		return real_fchmod(fd, mode);

	struct ident id;
	struct decision d;
	ident_fd(fd, &id);
	decide(K_FCHMOD, fd, &id, &d);
	int res;
	int err = 0;
	if (d.fail != 0) {
		res = -1;
		err = d.fail;
	} else {
		res = real_fchmod(fd, mode);
		err = errno;
	}
	char ib[32];
	emit(d.n, d.kn, "fchmod", "fchmod", fd, &id, (long long)mode, 0, res,
			res < 0 ? err : 0, inj_text(&d, ib, sizeof(ib), 0), NULL);
	errno = err;
	return res;
}


int
fchown(int fd, uid_t uid, gid_t gid)
{
	INIT();
	if (!fd_relevant(fd))
		return real_fchown(fd, uid, gid);

	struct ident id;
	struct decision d;
	ident_fd(fd, &id);
	decide(K_FCHOWN, fd, &id, &d);
	int res;
	int err = 0;
	if (d.fail != 0) {
		res = -1;
		err = d.fail;
	} else {
		res = real_fchown(fd, uid, gid);
		err = errno;
	}
	char ib[32];
	emit(d.n, d.kn, "fchown", "fchown", fd, &id, (long long)(int)uid,
			(long long)(int)gid, res, res < 0 ? err : 0,
			inj_text(&d, ib, sizeof(ib), 0), NULL);
	errno = err;
	return res;
}


int
futimens(int fd, const struct timespec ts[2])
{
	INIT();
	if (!fd_relevant(fd))
		return real_futimens(fd, ts);

	struct ident id;
	struct decision d;
	ident_fd(fd, &id);
	decide(K_FUTIMENS, fd, &id, &d);
	int res;
	int err = 0;
	if (d.fail != 0) {
		res = -1;
		err = d.fail;
	} else {
		res = real_futimens(fd, ts);
		err = errno;
	}
	char ib[32];
	emit(d.n, d.kn, "futimens", "futimens", fd, &id,
			ts ? (long long)ts[0].tv_sec : 0,
			ts ? (long long)ts[1].tv_sec : 0, res, res < 0 ? err : 0,
			inj_text(&d, ib, sizeof(ib), 0), NULL);
	errno = err;
	return res;
}


int
utimensat(int dirfd, const char *path, const struct timespec ts[2], int flags)
{
	INIT();
	const int rel = path != NULL ? path_relevant(path) : fd_relevant(dirfd);
	if (!rel)
		return real_utimensat(dirfd, path, ts, flags);

	struct ident id;
	struct decision d;
	if (path != NULL)
		ident_path(dirfd, path, &id);
	else
		ident_fd(dirfd, &id);
	decide(K_FUTIMENS, path != NULL ? -1 : dirfd, &id, &d);
	int res;
	int err = 0;
	if (d.fail != 0) {
		res = -1;
		err = d.fail;
	} else {
		res = real_utimensat(dirfd, path, ts, flags);
		err = errno;
	}
	char ib[32];
	emit(d.n, d.kn, "utimensat", "futimens", path != NULL ? -1 : dirfd, &id,
			ts ? (long long)ts[0].tv_sec : 0,
			ts ? (long long)ts[1].tv_sec : 0, res, res < 0 ? err : 0,
			inj_text(&d, ib, sizeof(ib), 0), path);
	errno = err;
	return res;
}


/* ---- stat family (real symbols since glibc 2.33) -------------------------------- */

#define FSTAT_BODY(fname, realfn) \
	INIT(); \
	if (!fd_relevant(fd)) \
		return realfn(fd, st); \
	struct ident id; \
	struct decision d; \
	ident_fd(fd, &id); \
	decide(K_FSTAT, fd, &id, &d); \
	int res; \
	int err = 0; \
	if (d.fail != 0) { \
		res = -1; \
		err = d.fail; \
	} else { \
		res = realfn(fd, st); \
		err = errno; \
	} \
	char ib[32]; \
	emit(d.n, d.kn, fname, "fstat", fd, &id, 0, 0, res, res < 0 ? err : 0, \
			inj_text(&d, ib, sizeof(ib), 0), NULL); \
	errno = err; \
	return res;

int fstat(int fd, struct stat *st) { FSTAT_BODY("fstat", real_fstat) }
int fstat64(int fd, struct stat64 *st) { FSTAT_BODY("fstat64", real_fstat64) }

#define STAT_BODY(fname, kindid, kindname, realfn) \
	INIT(); \
	if (!path_relevant(path)) \
		return realfn(path, st); \
	struct ident id; \
	struct decision d; \
	ident_path(AT_FDCWD, path, &id); \
	decide(kindid, -1, &id, &d); \
	int res; \
	int err = 0; \
	if (d.fail != 0) { \
		res = -1; \
		err = d.fail; \
	} else { \
		res = realfn(path, st); \
		err = errno; \
	} \
	char ib[32]; \
	emit(d.n, d.kn, fname, kindname, -1, &id, 0, 0, res, res < 0 ? err : 0, \
			inj_text(&d, ib, sizeof(ib), 0), path); \
	errno = err; \
	return res;

int stat(const char *path, struct stat *st)
{ STAT_BODY("stat", K_STAT, "stat", real_stat) }
int stat64(const char *path, struct stat64 *st)
{ STAT_BODY("stat64", K_STAT, "stat", real_stat64) }
int lstat(const char *path, struct stat *st)
{ STAT_BODY("lstat", K_LSTAT, "lstat", real_lstat) }
int lstat64(const char *path, struct stat64 *st)
{ STAT_BODY("lstat64", K_LSTAT, "lstat", real_lstat64) }


/* ---- poll, fcntl, posix_fadvise ---------------------------------------------------- */

int
poll(struct pollfd *fds, nfds_t nfds, int timeout)
{
	INIT();
	int fd = -1;
	for (nfds_t i = 0; i < nfds; ++i)
		if (fd_relevant(fds[i].fd)) {
			fd = fds[i].fd;
			break;
		}
	if (fd < 0)
		return real_poll(fds, nfds, timeout);

	struct ident id;
	struct decision d;
	ident_fd(fd, &id);
	decide(K_POLL, fd, &id, &d);
	int res;
	int err = 0;
	if (d.fail != 0) {
		res = -1;
		err = d.fail;
	} else {
		res = real_poll(fds, nfds, timeout);
		err = errno;
	}
	char ib[32];
	emit(d.n, d.kn, "poll", "poll", fd, &id, (long long)nfds, timeout, res,
			res < 0 ? err : 0, inj_text(&d, ib, sizeof(ib), 0), NULL);
	errno = err;
	return res;
}


static int
fcntl_common(const char *fname, int which, int fd, int cmd, void *arg)
{
	INIT();
	if (!fd_relevant(fd))
		return which == 0 ? real_fcntl(fd, cmd, arg)
				: real_fcntl64(fd, cmd, arg);

	struct ident id;
	struct decision d;
	ident_fd(fd, &id);
	decide(K_FCNTL, fd, &id, &d);
	int res;
	int err = 0;
	if (d.fail != 0) {
		res = -1;
		err = d.fail;
	} else {
		res = which == 0 ? real_fcntl(fd, cmd, arg)
				: real_fcntl64(fd, cmd, arg);
		err = errno;
		if (res >= 0 && (cmd == F_DUPFD || cmd == F_DUPFD_CLOEXEC))
			fd_set_rel(res, 1);
	}
	char ib[32];
	emit(d.n, d.kn, fname, "fcntl", fd, &id, cmd, (long long)(intptr_t)arg,
			res, res < 0 ? err : 0, inj_text(&d, ib, sizeof(ib), 0),
			NULL);
	errno = err;
	return res;
}

int
fcntl(int fd, int cmd, ...)
{
	va_list ap;
	va_start(ap, cmd);
	void *arg = va_arg(ap, void *);
	va_end(ap);
	return fcntl_common("fcntl", 0, fd, cmd, arg);
}

int
fcntl64(int fd, int cmd, ...)
{
	va_list ap;
	va_start(ap, cmd);
	void *arg = va_arg(ap, void *);
	va_end(ap);
	return fcntl_common("fcntl64", 1, fd, cmd, arg);
}


/* posix_fadvise returns the error number instead of setting errno. */
static int
fadvise_common(const char *fname, int which, int fd, off64_t off, off64_t len,
		int advice)
{
	INIT();
	if (!fd_relevant(fd))
		return which == 0 ? real_posix_fadvise(fd, (off_t)off,
					(off_t)len, advice)
				: real_posix_fadvise64(fd, off, len, advice);

	struct ident id;
	struct decision d;
	const int saved = errno;
	ident_fd(fd, &id);
	decide(K_FADVISE, fd, &id, &d);
	int res;
	if (d.fail != 0)
		res = d.fail;
	else
		res = which == 0 ? real_posix_fadvise(fd, (off_t)off,
					(off_t)len, advice)
				: real_posix_fadvise64(fd, off, len, advice);
	char ib[32];
	emit(d.n, d.kn, fname, "fadvise", fd, &id, (long long)len, advice,
			res == 0 ? 0 : -1, res, inj_text(&d, ib, sizeof(ib), 0),
			NULL);
	errno = saved;
	return res;
}

int posix_fadvise(int fd, off_t off, off_t len, int advice)
{ return fadvise_common("posix_fadvise", 0, fd, off, len, advice); }

int posix_fadvise64(int fd, off64_t off, off64_t len, int advice)
{ return fadvise_common("posix_fadvise64", 1, fd, off, len, advice); }
