// libxzmem.so - LD_PRELOAD heap monitor for the CLI half of C09.
//
// Counts the bytes the process holds on the malloc heap (malloc_usable_size of every live block) and remembers the
// peak. The report file named by XZMEM_OUT is opened in the constructor (before xz enters its sandbox) and one line
//   peak=<bytes> live=<bytes> allocs=<n> biggest=<bytes>
// is written from the destructor, i.e. when the tool leaves through exit(). A run that ends without the line was
// killed or left through _exit(); the driver treats that as "no measurement", never as a verdict.
//
// glibc exports __libc_malloc & co., so no dlsym() bootstrap is needed.
#define _GNU_SOURCE
#include <fcntl.h>
#include <malloc.h>
#include <stdatomic.h>
#include <stddef.h>
#include <stdio.h>
#include <stdlib.h>
#include <string.h>
#include <unistd.h>
#include <errno.h>

extern void *__libc_malloc(size_t);
extern void *__libc_calloc(size_t, size_t);
extern void *__libc_realloc(void *, size_t);
extern void __libc_free(void *);
extern void *__libc_memalign(size_t, size_t);

static _Atomic size_t g_live, g_peak, g_allocs, g_biggest;
static int g_fd = -1;

static void add(void *p)
{
	if (p == NULL) return;
	size_t n = malloc_usable_size(p);
	size_t live = atomic_fetch_add(&g_live, n) + n;
	atomic_fetch_add(&g_allocs, 1);
	size_t peak = atomic_load(&g_peak);
	while (live > peak && !atomic_compare_exchange_weak(&g_peak, &peak, live)) { }
	size_t big = atomic_load(&g_biggest);
	while (n > big && !atomic_compare_exchange_weak(&g_biggest, &big, n)) { }
}

static void sub(void *p)
{
	if (p != NULL) atomic_fetch_sub(&g_live, malloc_usable_size(p));
}

void *malloc(size_t n) { void *p = __libc_malloc(n); add(p); return p; }
void *calloc(size_t a, size_t b) { void *p = __libc_calloc(a, b); add(p); return p; }
void free(void *p) { sub(p); __libc_free(p); }

void *realloc(void *old, size_t n)
{
	size_t before = old ? malloc_usable_size(old) : 0;
	void *p = __libc_realloc(old, n);
	if (p != NULL || n == 0) {
		if (old) atomic_fetch_sub(&g_live, before);
		add(p);
	}
	return p;
}

void *memalign(size_t al, size_t n) { void *p = __libc_memalign(al, n); add(p); return p; }
void *aligned_alloc(size_t al, size_t n) { return memalign(al, n); }

int posix_memalign(void **out, size_t al, size_t n)
{
	void *p = __libc_memalign(al, n);
	if (p == NULL) return ENOMEM;
	add(p);
	*out = p;
	return 0;
}

__attribute__((constructor)) static void xzmem_init(void)
{
	const char *path = getenv("XZMEM_OUT");
	if (path != NULL && path[0])
		g_fd = open(path, O_WRONLY | O_CREAT | O_APPEND | O_CLOEXEC, 0600);
}

__attribute__((destructor)) static void xzmem_fini(void)
{
	if (g_fd < 0) return;
	char buf[160];
	int n = snprintf(buf, sizeof(buf), "peak=%zu live=%zu allocs=%zu biggest=%zu\n",
			atomic_load(&g_peak), atomic_load(&g_live), atomic_load(&g_allocs), atomic_load(&g_biggest));
	if (n > 0) { ssize_t w = write(g_fd, buf, (size_t)n); (void)w; }
}
